#!/bin/bash
# One-time setup after a fresh restore (offline): build the harness (release profile) from /repo's working tree.
set -e
cd "$(dirname "$0")"
export CARGO_NET_OFFLINE=true
test -f vendor/acorn.js || node tools/extract_acorn.js
node -e "
const rw = require('./js/lib/rw')
const b = rw.build('release')
if (!b.ok) { console.error(b.log.split('\n').slice(-40).join('\n')); process.exit(1) }
console.log('rwharness (release) built')
"
