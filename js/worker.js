'use strict'
// Shard worker: one Node process per core; monitors' state lives here, single-threaded.
const path = require('path')
process.on('unhandledRejection', () => {}) // rejections inside executed programs are observed through the run, not here
process.on('message', async (m) => {
  if (m.cmd === 'exit') process.exit(0)
  if (m.cmd === 'shard') {
    let report
    try {
      const mod = require(path.join(__dirname, 'props', m.id + '.js'))
      report = await mod.runShard(m.spec, m.ctx)
    } catch (e) {
      report = { evaluations: 0, distinct: [], violations: [], inconclusive: [{ reason: 'shard-error', detail: String(e && e.stack || e).slice(0, 1500) }], samples: [], counters: {} }
    }
    process.send({ cmd: 'report', index: m.index, report })
  }
})
