'use strict'
// Orchestrator (E7): check <ID> [--tier quick|thorough] [--replay path] [--jobs N] [--no-build]
const fs = require('fs')
const path = require('path')
const os = require('os')
const { fork } = require('child_process')
const { VERIF, hashStr, clip } = require('./lib/util')
const rw = require('./lib/rw')

function parseArgs (argv) {
  const a = { id: null, tier: process.env.VERIF_TIER || 'quick', replay: null, jobs: Math.min(16, os.cpus().length), build: true, seed: parseInt(process.env.VERIF_SEED || '1', 10) || 0 }
  for (let i = 0; i < argv.length; i++) {
    const x = argv[i]
    if (x === '--tier') a.tier = argv[++i]
    else if (x === '--replay') a.replay = argv[++i]
    else if (x === '--jobs') a.jobs = parseInt(argv[++i], 10)
    else if (x === '--seed') a.seed = parseInt(argv[++i], 10)
    else if (x === '--no-build') a.build = false
    else if (!a.id) a.id = x
  }
  if (a.tier !== 'quick' && a.tier !== 'thorough') a.tier = 'quick'
  return a
}

function loadKnown () {
  try {
    const k = JSON.parse(fs.readFileSync(path.join(VERIF, 'known_findings.json'), 'utf8'))
    return k.findings || []
  } catch (e) { return [] }
}

async function runShards (mod, shards, ctx, jobs) {
  const reports = new Array(shards.length)
  let next = 0
  const n = Math.max(1, Math.min(jobs, shards.length))
  await Promise.all(Array.from({ length: n }, () => new Promise((resolve) => {
    const startWorker = () => {
      if (next >= shards.length) return resolve()
      const child = fork(path.join(__dirname, 'worker.js'), [], { execArgv: ['--experimental-vm-modules', '--no-warnings', '--stack-size=4000', '--max-old-space-size=3000'], stdio: ['ignore', 'inherit', 'inherit', 'ipc'] })
      let current = null
      const feed = () => {
        if (next >= shards.length) { child.send({ cmd: 'exit' }); return }
        current = next++
        child.send({ cmd: 'shard', id: ctx.id, index: current, spec: shards[current], ctx })
      }
      child.on('message', (m) => {
        if (m.cmd === 'report') { reports[m.index] = m.report; current = null; feed() }
      })
      child.on('exit', (code, sig) => {
        if (current !== null) {
          reports[current] = { evaluations: 0, distinct: [], violations: [], inconclusive: [{ reason: 'worker-died', detail: `code=${code} sig=${sig} shard=${current}` }], samples: [], counters: {} }
          current = null
          return startWorker() // replace the dead worker
        }
        resolve()
      })
      feed()
    }
    startWorker()
  })))
  return reports
}

function merge (reports) {
  const m = { evaluations: 0, distinct: new Set(), violations: [], inconclusive: [], samples: [], counters: {}, shards: reports.length, shardsFailed: 0, extra: {} }
  for (const r of reports) {
    if (!r) { m.shardsFailed++; continue }
    m.evaluations += r.evaluations || 0
    for (const d of r.distinct || []) m.distinct.add(d)
    for (const v of r.violations || []) m.violations.push(v)
    for (const i of r.inconclusive || []) m.inconclusive.push(i)
    if (r.inconclusive && r.inconclusive.some(i => i.reason === 'worker-died' || i.reason === 'shard-error')) m.shardsFailed++
    for (const s of r.samples || []) if (m.samples.length < 12) m.samples.push(s)
    for (const [k, v] of Object.entries(r.counters || {})) m.counters[k] = (m.counters[k] || 0) + v
    for (const [k, v] of Object.entries(r.sets || {})) { m.extra[k] = m.extra[k] || new Set(); for (const x of v) m.extra[k].add(x) }
  }
  return m
}

async function main () {
  const args = parseArgs(process.argv.slice(2))
  if (!args.id) { console.error('usage: check <ID> [--tier quick|thorough] [--replay path]'); process.exit(2) }
  const t0 = Date.now()
  const modPath = path.join(__dirname, 'props', args.id + '.js')
  if (!fs.existsSync(modPath)) { console.error('no such property check: ' + args.id); process.exit(2) }
  const mod = require(modPath)
  const ctx = { id: args.id, tier: args.tier, seed: args.seed }

  if (args.build) {
    const profiles = (mod.profiles ? mod.profiles(ctx) : ['release'])
    for (const p of profiles) {
      const b = rw.build(p)
      if (!b.ok) {
        console.error(b.log.split('\n').slice(-40).join('\n'))
        console.error(`INCONCLUSIVE property=${args.id}: harness build (${p}) from /repo failed; nothing could be observed`)
        process.exit(2)
      }
    }
  }

  if (args.replay) {
    const w = JSON.parse(fs.readFileSync(args.replay, 'utf8'))
    const res = await mod.replay(w.witness, Object.assign({}, ctx, { tier: w.tier || ctx.tier, seed: w.seed === undefined ? ctx.seed : w.seed }))
    const vs = res.violations || []
    for (const v of vs) console.log(`REPLAY violation sig=${v.sig}\n  ${clip(v.what, 2000)}`)
    if (vs.length) { console.log(`VIOLATION property=${args.id} replay=${args.replay}`); process.exit(1) }
    console.log('replay: no violation reproduced'); process.exit(0)
  }

  const shards = mod.plan(ctx)
  const reports = await runShards(mod, shards, ctx, args.jobs)
  const m = merge(reports)
  const known = loadKnown().filter(k => k.property === args.id)
  const knownSigs = new Map(known.map(k => [k.signature, k]))

  // group violations by signature
  const bySig = new Map()
  for (const v of m.violations) { if (!bySig.has(v.sig)) bySig.set(v.sig, []); bySig.get(v.sig).push(v) }
  const newSigs = []
  const knownSeen = []
  for (const [sig, vs] of bySig) {
    if (knownSigs.has(sig)) knownSeen.push([sig, vs]); else newSigs.push([sig, vs])
  }
  for (const [sig, vs] of knownSeen) {
    console.log(`KNOWN-FINDING: property=${args.id} ${sig} — ${knownSigs.get(sig).what} (re-observed ${vs.length}x)`)
  }
  const replayDir = path.join(VERIF, 'replays', args.id)
  // the replays of the previous run survive one more run (replays/<ID>.prev): an alarm that does not repeat can still be examined
  try { if (fs.existsSync(replayDir)) { fs.rmSync(replayDir + '.prev', { recursive: true, force: true }); fs.renameSync(replayDir, replayDir + '.prev') } } catch (e) {}
  try { fs.rmSync(replayDir, { recursive: true, force: true }) } catch (e) {}
  let printed = 0
  for (const [sig, vs] of newSigs) {
    fs.mkdirSync(replayDir, { recursive: true })
    const file = path.join(replayDir, hashStr(sig) + '.json')
    fs.writeFileSync(file, JSON.stringify({ property: args.id, signature: sig, what: vs[0].what, count: vs.length, tier: ctx.tier, seed: ctx.seed, witness: vs[0].witness }, null, 1))
    if (printed++ < 25) {
      console.log(`  violation sig=${sig} (${vs.length}x): ${clip(vs[0].what, 600)}`)
      console.log(`VIOLATION property=${args.id} replay=${file}`)
    }
  }
  if (newSigs.length > 25) console.log(`  … and ${newSigs.length - 25} more signatures (all written under ${replayDir})`)

  const inconcByReason = {}
  for (const i of m.inconclusive) inconcByReason[i.reason] = (inconcByReason[i.reason] || 0) + 1
  const wall = (Date.now() - t0) / 1000
  const fin = mod.finalize ? mod.finalize(m, ctx) : {}
  const coverage = Object.assign({
    evaluations: m.evaluations,
    distinct_nontrivial: m.distinct.size,
    rule: mod.rule || '',
    samples: m.samples,
    counters: m.counters,
    inconclusive: inconcByReason,
    inconclusive_examples: m.inconclusive.slice(0, 5),
    shards: m.shards,
    shards_failed: m.shardsFailed,
    known_findings_reobserved: knownSeen.map(([s, vs]) => ({ signature: s, count: vs.length })),
    new_violation_signatures: newSigs.map(([s]) => s).slice(0, 50)
  }, fin.coverage || {})
  for (const [k, v] of Object.entries(m.extra)) { const arr = Array.from(v).sort(); coverage[k] = arr.slice(0, arr.some(x => String(x).length > 120) ? 12 : 400) }
  const level = mod.level || 'exploration'
  if (level === 'translation_validation') {
    coverage.programs = coverage.programs === undefined ? m.evaluations : coverage.programs
    coverage.disagreements_checked = coverage.disagreements_checked === undefined ? m.violations.length : coverage.disagreements_checked
  }
  const evidence = {
    property_id: args.id,
    tier: ctx.tier,
    seed: ctx.seed,
    level,
    coverage,
    assumptions: (mod.assumptions || []).concat(fin.assumptions || []),
    wall_s: wall,
    violations: newSigs.length
  }
  fs.mkdirSync(path.join(VERIF, 'evidence'), { recursive: true })
  fs.writeFileSync(path.join(VERIF, 'evidence', args.id + '.json'), JSON.stringify(evidence, null, 1))

  const verdictLine = `property=${args.id} tier=${ctx.tier} seed=${ctx.seed} evaluations=${m.evaluations} distinct=${m.distinct.size} violations=${newSigs.length} known=${knownSeen.length} inconclusive=${m.inconclusive.length} wall=${wall.toFixed(1)}s`
  if (newSigs.length) { console.log('VIOLATED ' + verdictLine); process.exit(1) }
  const minEval = mod.minEvaluations ? mod.minEvaluations(ctx) : 1
  if (m.shardsFailed * 2 > m.shards || m.evaluations < minEval || m.distinct.size < 2) {
    console.log('INCONCLUSIVE ' + verdictLine + ' ' + JSON.stringify(inconcByReason))
    console.log(JSON.stringify(m.inconclusive.slice(0, 5)))
    process.exit(2)
  }
  console.log('HELD-ON-OBSERVED ' + verdictLine + (m.inconclusive.length ? ' ' + JSON.stringify(inconcByReason) : ''))
  process.exit(0)
}

main().catch((e) => { console.error('check.js internal error', e); process.exit(2) })
