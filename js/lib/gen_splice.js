'use strict'
// "Operation splicing": real-world files of the corpus get enabled operations grafted onto randomly chosen expression
// nodes (every kind of expression, in every kind of syntactic neighbourhood the corpus happens to contain). The result is
// only used by the structural / compile-only monitors (it is never executed): it multiplies the contexts in which an
// operation appears far beyond what the catalogue and the grammar generator enumerate by hand.
const A = require('./astmon')
const corpus = require('./corpus')
const { compile } = require('./world')

// parent/key slots in which the child is a plain expression that may be replaced by any parenthesised expression
const SLOTS = {
  BinaryExpression: ['left', 'right'],
  LogicalExpression: ['left', 'right'],
  AssignmentExpression: ['right'],
  VariableDeclarator: ['init'],
  ReturnStatement: ['argument'],
  ThrowStatement: ['argument'],
  CallExpression: ['arguments', 'callee-object'],
  NewExpression: ['arguments'],
  ArrayExpression: ['elements'],
  Property: ['value'],
  PropertyDefinition: ['value'],
  ConditionalExpression: ['test', 'consequent', 'alternate'],
  MemberExpression: ['computed-property', 'object'],
  TemplateLiteral: ['expressions'],
  IfStatement: ['test'],
  WhileStatement: ['test'],
  DoWhileStatement: ['test'],
  ForStatement: ['test', 'update'],
  ForOfStatement: ['right'],
  ForInStatement: ['right'],
  SwitchStatement: ['discriminant'],
  SwitchCase: ['test'],
  ArrowFunctionExpression: ['body'],
  UnaryExpression: ['argument'],
  SequenceExpression: ['expressions'],
  YieldExpression: ['argument'],
  AwaitExpression: ['argument'],
  SpreadElement: ['argument'],
  AssignmentPattern: ['right'],
  ExpressionStatement: ['expression'],
  TaggedTemplateExpression: [],
  ClassDeclaration: ['superClass'],
  ClassExpression: ['superClass']
}

function candidates (ast) {
  const out = []
  let depthFn = 0
  const visit = (n, parent, key, inPattern, fnDepth, inTpl) => {
    if (!A.isObj(n)) return
    if (Array.isArray(n)) { n.forEach(c => visit(c, parent, key, inPattern, fnDepth, inTpl)); return }
    if (!n.type) return
    const isFn = n.type === 'FunctionDeclaration' || n.type === 'FunctionExpression' || n.type === 'ArrowFunctionExpression'
    const fd = fnDepth + (isFn ? 1 : 0)
    if (parent && !inPattern && n.start !== undefined && isExprSlot(n, parent, key)) out.push({ start: n.start, end: n.end, type: n.type, parent: parent.type, key, inFn: fnDepth > 0, inTpl: !!inTpl })
    for (const k of Object.keys(n)) {
      if (k === 'type' || k === 'start' || k === 'end' || k === 'loc') continue
      const v = n[k]
      if (!A.isObj(v)) continue
      // binding positions are not expressions
      let pat = inPattern
      if ((n.type === 'VariableDeclarator' && k === 'id') || (isFn && k === 'params') || (n.type === 'CatchClause' && k === 'param') || (n.type === 'AssignmentExpression' && k === 'left') || ((n.type === 'ForOfStatement' || n.type === 'ForInStatement') && k === 'left') || (n.type === 'AssignmentPattern' && k === 'left') || n.type === 'ObjectPattern' || n.type === 'ArrayPattern' || n.type === 'RestElement') pat = true
      if (n.type === 'AssignmentPattern' && k === 'right') pat = false
      visit(v, n, k, pat, fd, inTpl || (n.type === 'TemplateLiteral' && k === 'expressions'))
    }
  }
  void depthFn
  visit(ast, null, null, false, 0, false)
  return out
}

function isExprSlot (n, parent, key) {
  if (/Pattern$|^RestElement$|^SpreadElement$|^Super$|^PrivateIdentifier$|^TemplateElement$|^ChainExpression$/.test(n.type)) return false
  if (n.type === 'Identifier' && (n.name === 'undefined' || n.name === 'arguments')) return false
  const slots = SLOTS[parent.type]
  if (!slots) return false
  if (parent.type === 'MemberExpression') {
    if (key === 'property') return parent.computed && slots.includes('computed-property')
    if (key === 'object') return n.type !== 'Super'
    return false
  }
  if (parent.type === 'CallExpression' && key === 'callee') return false
  if (parent.type === 'Property') return key === 'value' && parent.kind === 'init' && !parent.method && !parent.shorthand
  if (parent.type === 'ArrowFunctionExpression') return key === 'body' && n.type !== 'BlockStatement'
  if (parent.type === 'UnaryExpression') return parent.operator !== 'delete' && parent.operator !== 'typeof'
  if (parent.type === 'ExpressionStatement') return key === 'expression' && !parent.directive && n.type !== 'Literal'
  return slots.includes(key)
}

// wrappers: x is the source text of the chosen node, v / o fresh free identifiers
const WRAPPERS = [
  (x, v) => `((${x}) + ${v})`,
  (x, v) => `(${v} + (${x}))`,
  (x, v) => `(${v} + (${x}) + 'lit')`,
  (x, v) => `\`\${${v}}:\${${x}}\``,
  (x, v) => `(${x}).trim()`,
  (x, v) => `${v}.concat(${x})`,
  (x, v) => `${v}.concat(${v}2, ${x}, ...${v}3)`,
  (x, v) => `(${x})?.trim()`,
  (x, v) => `${v}?.a.substring(${x})`,
  (x, v) => `String.prototype.concat.call(${v}, ${x})`,
  (x, v) => `String.prototype.concat.apply(${x}, [${v}, 'lit'])`,
  (x, v) => `(${v} += ${x})`,
  (x, v) => `(${v}.p[${x}] += ${v}2)`,
  (x, v) => `${v}[(${x}) + ${v}2]`,
  (x, v) => `(${v} ? (${x}) + ${v} : ${v}.trim())`,
  (x, v) => `(${x}, ${v} + ${v}2)`,
  (x, v) => `((${x}) + ${v}).slice(1).toUpperCase()`,
  (x, v) => `[${v}, ${x}].join(${v}2)`,
  (x, v) => `(() => (${x}) + ${v})()`,
  (x, v) => `aloneMethod(${x})`,
  // long string literals next to / inside the grafted operation (literal collection)
  (x, v) => `((${x}) + 'spliced literal value ${'$'}{0}')`.replace('${0}', v),
  (x, v) => `${v}.concat('spliced literal argument', ${x}, "another spliced literal")`,
  (x, v) => `(${x})?.replace('spliced pattern text', \`tpl \${${v}}\`)`,
  (x, v) => `({ splicedKey: 'spliced property value', other: ${x} }).other`,
  (x, v) => `require('spliced-module-name-long')(${x}, new RegExp('spliced regexp source'), 'spliced plain argument')`
]

// runnable variant for the execution-based monitors: the chosen expression x becomes `(x is primitive ? OP(x) : 0, x)`,
// so the value that flows on is unchanged (x is evaluated several times - deterministic, and the same in the input and in the output)
// (only primitive values are fed to the operation: converting a function or class to a string exposes its source text,
// which no rewriter can keep)
const guardPrim = (x, op) => `(typeof (${x}) === 'string' || typeof (${x}) === 'number' ? ${op} : 0, ${x})`
const RUN_WRAPPERS = [
  x => guardPrim(x, `(${x}) + w.s91`),
  x => guardPrim(x, `w.s92 + (${x})`),
  x => guardPrim(x, `\`\${w.s93}:\${${x}}\``),
  x => guardPrim(x, `String(${x}).trim()`),
  x => guardPrim(x, `w.s94.concat(${x})`),
  x => guardPrim(x, `String.prototype.concat.call(w.s95, ${x})`),
  x => guardPrim(x, `(${x})?.toString?.().trim()`),
  x => guardPrim(x, `(w.o91.p += ${x})`),
  x => guardPrim(x, `[w.s96, ${x}].join(w.s97)`),
  x => guardPrim(x, `w.o92[(${x}) + w.s98]`)
]

// known finding D7: temporaries of parameter defaults / class field initialisers live in the enclosing activation, so a
// call made while an enclosing expression has live temporaries clobbers them. Splicing puts calls into such positions
// at random; programs with that shape are left to the dedicated witnesses (C06 / known_findings.json).
function hasD7Shape (ast) {
  let found = false
  const hasOp = (n) => { let f = false; A.walk(n, x => { if ((x.type === 'BinaryExpression' && x.operator === '+') || (x.type === 'AssignmentExpression' && x.operator === '+=') || (x.type === 'TemplateLiteral' && x.expressions.length) || (x.type === 'CallExpression' && x.callee.type === 'MemberExpression')) f = true }); return f }
  A.walk(ast, (n) => {
    if ((n.type === 'FunctionDeclaration' || n.type === 'FunctionExpression') && n.params.some(p => hasOp(p))) found = true
    if (n.type === 'PropertyDefinition' && n.value && hasOp(n.value)) found = true
  })
  return found
}

// splice into a given runnable program text (the operations use the world object `w`, in scope in every zoo / catalogue body)
function spliceRunnable (rng, code, module, maxSplices = 3) {
  let ast
  try { ast = A.parse(code, { module }) } catch (e) { return null }
  if (hasD7Shape(ast)) return null
  // (an array literal passed to a call may be the argument list of .apply: wrapping it would make the documented
  // literal-list requirement of X.prototype.m.apply inapplicable - known finding D19)
  // (nothing inside a template substitution either: the statement exempts the moment at which an earlier substitution is
  // coerced relative to later ones, and a splice would put an effect into a later one)
  const cands = candidates(ast).filter(c => c.inFn && !c.inTpl && c.type !== 'Literal' && c.type !== 'TemplateLiteral' && !(c.type === 'ArrayExpression' && c.parent === 'CallExpression'))
  if (!cands.length) return null
  const n = Math.min(cands.length, rng.range(1, maxSplices))
  const chosen = []
  for (let i = 0; i < n * 3 && chosen.length < n; i++) {
    const c = rng.pick(cands)
    if (chosen.some(o => !(c.end <= o.start || c.start >= o.end))) continue
    chosen.push(c)
  }
  chosen.sort((a, b) => b.start - a.start)
  let text = code
  const applied = []
  for (const c of chosen) {
    const w = rng.int(RUN_WRAPPERS.length)
    text = text.slice(0, c.start) + RUN_WRAPPERS[w](text.slice(c.start, c.end)) + text.slice(c.end)
    applied.push(`${c.parent}.${c.key}<${c.type}>:r${w}`)
  }
  if (compile(text, module)) return null
  return { code: text, splices: applied }
}

// returns [{code, meta}] (only programs V8 still accepts)
function splice (rng, files, count) {
  const out = []
  let guard = 0
  while (out.length < count && guard++ < count * 6) {
    const f = rng.pick(files)
    const code = corpus.read(f.name)
    if (code.length > 60000) continue
    let ast
    const module = f.kind === 'module'
    try { ast = A.parse(code, { module }) } catch (e) { continue }
    const cands = candidates(ast).filter(c => c.inFn || rng.bool(0.2))
    if (!cands.length) continue
    const n = Math.min(cands.length, rng.range(1, 4))
    const chosen = []
    for (let i = 0; i < n * 3 && chosen.length < n; i++) {
      const c = rng.pick(cands)
      if (chosen.some(o => !(c.end <= o.start || c.start >= o.end))) continue // no overlap
      chosen.push(c)
    }
    chosen.sort((a, b) => b.start - a.start)
    let text = code
    const applied = []
    for (const c of chosen) {
      const w = rng.int(WRAPPERS.length)
      const v = '__sp' + rng.int(1000)
      text = text.slice(0, c.start) + WRAPPERS[w](text.slice(c.start, c.end), v) + text.slice(c.end)
      applied.push(`${c.parent}.${c.key}<${c.type}>:w${w}`)
    }
    if (compile(text, module)) continue // V8 rejects: not an input of interest
    out.push({ code: text, meta: { kind: 'splice', name: f.name, module, splices: applied, sigBase: 'splice:' + f.name } })
  }
  return out
}

module.exports = { splice, spliceRunnable, candidates, WRAPPERS, RUN_WRAPPERS }
