'use strict'
// Instrumentation policy model written from the statement of C04/C05 (not from the Rust code):
// marks input nodes that MUST be hooked (`__req`) and classifies any node by the operation it performs.
const { walk, isObj } = require('./astmon')
const { dstMap } = require('./configs')

const LIT_CALLERS = new Set(['concat', 'replace', 'replaceAll', 'padStart', 'padEnd', 'repeat'])

const isLit = n => n && n.type === 'Literal'
const strip = n => { while (n && n.type === 'ParenthesizedExpression') n = n.expression; return n }
function litOnlySum (n) {
  n = strip(n)
  return isLit(n) || (n.type === 'BinaryExpression' && n.operator === '+' && litOnlySum(n.left) && litOnlySum(n.right))
}

// X.prototype.m.call|apply : returns {method, kind:'call'|'apply'} or null
function protoCall (call) {
  const c = call.callee
  if (c.type !== 'MemberExpression' || c.computed || c.property.type !== 'Identifier') return null
  if (c.property.name !== 'call' && c.property.name !== 'apply') return null
  const fn = c.object
  if (fn.type !== 'MemberExpression' || fn.computed || fn.property.type !== 'Identifier') return null
  const proto = fn.object
  if (proto.type !== 'MemberExpression' || proto.computed || proto.property.type !== 'Identifier' || proto.property.name !== 'prototype') return null
  // X must be a static path of identifiers
  let x = proto.object
  while (x.type === 'MemberExpression' && !x.computed) x = x.object
  if (x.type !== 'Identifier') return null
  return { method: fn.property.name, kind: c.property.name }
}

// classify the operation performed by a node (input or erased-output side): {op, tag} or null
// op: 'plus' | 'tpl' | method source name ; tag as used by telemetry
function opOf (n) {
  if (n.type === 'BinaryExpression' && n.operator === '+') return { op: 'plus', tag: '+' }
  if (n.type === 'AssignmentExpression' && n.operator === '+=') return { op: 'plus', tag: n.__origOp === '=' ? '+' : '+=' }
  if (n.type === 'TemplateLiteral') return { op: 'tpl', tag: 'Tpl' }
  if (n.type === 'CallExpression') {
    const pc = protoCall(n)
    if (pc) return { op: 'method', method: pc.method, tag: pc.method, proto: pc.kind }
    const c = n.callee
    if (c.type === 'MemberExpression' && !c.computed && c.property.type === 'Identifier') {
      // obj.m.call(x) is treated by the rewriter like a prototype call (method = m)
      if ((c.property.name === 'call' || c.property.name === 'apply') && c.object.type === 'MemberExpression' && !c.object.__paren && !c.object.computed && c.object.property.type === 'Identifier') {
        return { op: 'method', method: c.object.property.name, tag: c.object.property.name, proto: c.property.name, loosePath: true }
      }
      return { op: 'method', method: c.property.name, tag: c.property.name }
    }
    if (c.type === 'Identifier') return { op: 'method', method: c.name, tag: c.name, bare: true }
  }
  return null
}

// Annotates `ast` (parsed with preserveParens) in place. Returns {required:[nodes], counts}
function annotate (ast, config) {
  const dm = dstMap(config)
  const required = []
  function visit (n, ctx, parent, key) {
    if (!isObj(n)) return
    if (Array.isArray(n)) { n.forEach(c => visit(c, ctx, parent, key)); return }
    if (!n.type) return
    let c = ctx
    if (n.type === 'BlockStatement' || n.type === 'StaticBlock') c = Object.assign({}, c, { inBlock: true })
    if (n.type === 'UnaryExpression' && n.operator === 'delete') c = Object.assign({}, c, { excl: 'delete' })
    if (n.type === 'TemplateLiteral' && n.expressions.some(e => isLit(strip(e)))) c = Object.assign({}, c, { excl: 'tpl-literal-substitution' })
    if (c.excl) n.__excl = c.excl
    n.__in = c.inBlock
    if (c.inBlock && !c.excl) {
      let req = null
      if (n.type === 'BinaryExpression' && n.operator === '+' && dm.plus !== null && !(litOnlySum(n.left) && litOnlySum(n.right))) req = { op: 'plus', dst: dm.plus }
      else if (n.type === 'AssignmentExpression' && n.operator === '+=' && dm.plus !== null && n.left.type !== 'ObjectPattern' && n.left.type !== 'ArrayPattern') req = { op: 'plus', dst: dm.plus }
      else if (n.type === 'TemplateLiteral' && dm.tpl !== null && !(parent && parent.type === 'TaggedTemplateExpression') && n.expressions.length > 0 && n.expressions.every(e => !isLit(strip(e)))) req = { op: 'tpl', dst: dm.tpl }
      else if (n.type === 'CallExpression' && !n.optional) {
        const pc = protoCall(n)
        if (pc && dm.methods.has(pc.method) && n.arguments.length >= 1) {
          // X.prototype.m.call|apply(thisArg, ..): demanded when thisArg is a plain (non-spread, non-literal) expression;
          // literal this-arguments are left to the implementation (statement silent)
          const th = n.arguments[0]
          const thisOk = th.type !== 'SpreadElement' && !isLit(strip(th))
          const applyOk = pc.kind === 'call' || n.arguments.length >= 1 // apply(thisArg) without a list is apply(thisArg, ..) with nothing after it
          if (thisOk && applyOk) {
            req = { op: 'method', method: pc.method, dst: dm.methods.get(pc.method) }
            if (pc.kind === 'apply' && n.arguments.length >= 2 && strip(n.arguments[1]).type !== 'ArrayExpression' && n.arguments[1].type !== 'SpreadElement') req.applyNonLiteralList = true
          }
        } else if (!pc) {
          const cal = n.callee
          if (cal.type === 'MemberExpression' && !cal.computed && cal.property.type === 'Identifier' && dm.methods.has(cal.property.name) && cal.property.name !== 'call' && cal.property.name !== 'apply') {
            const m = cal.property.name
            const r = cal.object
            const rk = r.type
            let ok = false
            if (rk === 'Identifier' || rk === 'CallExpression' || rk === 'ParenthesizedExpression' || rk === 'ArrayExpression') ok = true
            else if (rk === 'MemberExpression') ok = !(!r.computed && r.property.type === 'Identifier' && r.property.name === 'prototype') && !(r.computed && isLit(r.property) && r.property.value === 'prototype')
            else if (rk === 'Literal' && typeof r.value === 'string' && LIT_CALLERS.has(m)) ok = true
            if (ok) req = { op: 'method', method: m, dst: dm.methods.get(m), recv: rk, optionalMember: !!cal.optional }
          }
        }
      }
      if (req) { n.__req = req; required.push(n) }
    }
    for (const k of Object.keys(n)) {
      if (k === 'type' || k === 'start' || k === 'end' || k === 'loc' || k.startsWith('__')) continue
      const v = n[k]
      if (!isObj(v)) continue
      let c2 = c
      if (n.type === 'ArrowFunctionExpression' && k === 'params') c2 = Object.assign({}, c, { excl: 'arrow-parameter' })
      visit(v, c2, n, k)
    }
  }
  visit(ast, { inBlock: false, excl: null }, null, null)
  return { required, dm }
}

// parallel walk over two structurally equal trees
function pairs (a, b, f) {
  if (!isObj(a) || !isObj(b)) return
  if (Array.isArray(a)) { if (Array.isArray(b)) for (let i = 0; i < a.length && i < b.length; i++) pairs(a[i], b[i], f); return }
  if (!a.type || a.type !== b.type) return
  f(a, b)
  for (const k of Object.keys(a)) {
    if (k === 'type' || k === 'start' || k === 'end' || k === 'loc' || k === 'raw' || k.startsWith('__')) continue
    const v = a[k]
    if (isObj(v)) pairs(v, b[k], f)
  }
}

module.exports = { annotate, opOf, pairs, protoCall, litOnlySum, LIT_CALLERS, strip }
