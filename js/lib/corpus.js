'use strict'
const fs = require('fs')
const path = require('path')
const { VERIF } = require('./util')
const DIR = path.join(VERIF, 'corpus')
let index = null
function list () {
  if (!index) index = JSON.parse(fs.readFileSync(path.join(DIR, 'INDEX.json'), 'utf8'))
  return index
}
function read (name) { return fs.readFileSync(path.join(DIR, name), 'utf8') }
module.exports = { list, read, DIR }
