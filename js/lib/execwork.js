'use strict'
// Workload shared by the execution-based checks (C01, C03, C06, C07): catalogue slice/full + random programs.
const cat = require('./gen_catalog')
const { genProgram } = require('./gen_random')
const zoo = require('./gen_zoo')
const { Rng, chunk } = require('./util')
const { SETS, NAMES } = require('./cfgset')

const VARIANTS = ['sloppy', 'strict', 'module']
// file names rotate too: base name, extension and depth must not matter to anything but the map's `sources`
const FILES = ['/app/src/prog.js', '/app/lib/mod.mjs', '/srv/x/index.cjs', '/a/b/c/d/e/f/deep.js', 'relative.js', '/app/ñ/файл.js', '/app/noext', '/app/src/prog.js']

// line-ending styles of the file as a whole (Windows-authored and old Mac files are real-world inputs): every line break of the
// program text, including those inside templates, comments and string line continuations, is spelled that way
const EOLS = ['lf', 'crlf', 'cr']
function withEol (code, eol) {
  if (eol === 'crlf') return code.replace(/\r?\n/g, '\r\n')
  if (eol === 'cr') return code.replace(/\r?\n/g, '\r')
  return code
}

// returns shard specs (plain JSON)
function plan (ctx, o) {
  const shards = []
  const rng = new Rng(ctx.seed, 'plan', ctx.id)
  let pairs
  if (ctx.tier === 'thorough' && o.fullCatalogue !== false) pairs = cat.allPairs()
  else pairs = cat.slicePairs(ctx.seed, o.quickFormsPerPlacement || 4)
  const items = []
  const cfgNames = o.cfgNames || NAMES
  let i = 0
  for (const [pl, fm] of pairs) {
    const nVar = ctx.tier === 'thorough' ? (o.thoroughVariants || 2) : 1
    for (let v = 0; v < nVar; v++) {
      items.push({ p: pl.id, f: fm.id, variant: VARIANTS[(i + v + ctx.seed) % 3], cfg: cfgNames[(i * 3 + v + ctx.seed) % cfgNames.length] })
    }
    i++
  }
  if (o.includeKnown !== false) for (const [pl, fm] of cat.knownPairs()) items.push({ p: pl.id, f: fm.id, variant: 'sloppy', cfg: fm.cfg || 'FULL', known: true })
  const per = o.catalogPerShard || 120
  for (const c of chunk(rng.shuffle(items), per)) shards.push({ kind: 'catalog', items: c })
  if (o.zoo !== false) for (const eol of EOLS) shards.push({ kind: 'zoo', eol })
  // zoo programs with operations spliced onto random sub-expressions (value-preserving, runnable)
  if (o.zoo !== false) { const nz = ctx.tier === 'thorough' ? 24 : 2; for (let k = 0; k < nz; k++) shards.push({ kind: 'zoosplice', stream: k }) }
  let nRandom = ctx.tier === 'thorough' ? (o.thoroughRandom || 20000) : (o.quickRandom || 600)
  if (process.env.VERIF_ONLY_FORMS || process.env.VERIF_ONLY_PLACEMENTS) nRandom = 100 // debugging aid: catalogue subset only
  const perR = o.randomPerShard || 100
  for (let k = 0; k < Math.ceil(nRandom / perR); k++) shards.push({ kind: 'random', count: Math.min(perR, nRandom - k * perR), stream: k, cfgNames })
  return shards
}

// materialise a shard into jobs [{code, meta, config, cfgKey, cfgName}]
function jobs (spec, ctx) {
  const out = []
  if (spec.kind === 'catalog') {
    for (const it of spec.items) {
      const [pl, fm] = cat.byIds(it.p, it.f)
      const prog = cat.build(pl, fm, { strict: it.variant === 'strict', module: it.variant === 'module' })
      prog.meta.known = !!it.known
      prog.meta.sigBase = `catalog:${it.p}:${it.f}`
      out.push({ code: prog.code, file: FILES[out.length % FILES.length], meta: prog.meta, config: SETS[it.cfg], cfgKey: it.cfg, cfgName: it.cfg })
      // every seventh program also runs with further operations spliced onto random sub-expressions (cross combinations)
      // (not for world-observable `w.X.prototype.m` paths: the statement exempts the order of reading such a path versus the
      // this-argument, and a splice would make the this-argument effectful)
      if (!it.known && !pl.kfShape && !pl.asyncMain && !fm.kf && out.length % 7 === 0 && !/\basync\b|\bawait\b|\bPromise\b|w\.X\d+\??\.prototype/.test(prog.code)) {
        const sp = require('./gen_splice').spliceRunnable(new Rng(ctx.seed, 'catsplice', it.p, it.f), prog.code, !!prog.meta.module, 2)
        if (sp) out.push({ code: sp.code, file: FILES[out.length % FILES.length], meta: Object.assign({}, prog.meta, { sigBase: `catalog-splice:${it.p}:${it.f}`, splices: sp.splices, spliced: true }), config: SETS[it.cfg], cfgKey: it.cfg, cfgName: it.cfg })
      }
    }
  } else if (spec.kind === 'zoo') {
    // unusual-but-valid syntax next to instrumented operations, under three configurations
    zoo.ZOO.forEach((entry, i) => {
      for (const cfgName of ['FULL', 'COMMENTS', 'RENAMED']) {
        const prog = zoo.build(entry)
        const eol = spec.eol || 'lf'
        if (eol !== 'lf') { prog.meta.eol = eol; prog.meta.sigBase += ':' + eol }
        out.push({ code: withEol(prog.code, eol), file: FILES[i % FILES.length], meta: prog.meta, config: SETS[cfgName], cfgKey: cfgName, cfgName })
      }
    })
  } else if (spec.kind === 'zoosplice') {
    const rng = new Rng(ctx.seed, 'zoosplice', ctx.id, spec.stream)
    zoo.ZOO.forEach((entry, i) => {
      for (let v = 0; v < 3; v++) {
        const prog = zoo.build(entry)
        // evaluating a sub-expression several times would start asynchronous work nobody awaits (events after the run ends)
        if (prog.meta.asyncMain || /\basync\b|\bawait\b|\bPromise\b|import\(/.test(prog.code)) continue
        const sp = require('./gen_splice').spliceRunnable(rng.fork(i * 7 + v), prog.code, !!prog.meta.module)
        if (!sp) continue
        const cfgName = ['FULL', 'RENAMED', 'FULL'][v]
        prog.meta.sigBase = `zoosplice:${prog.meta.zoo}`
        prog.meta.splices = sp.splices
        out.push({ code: sp.code, file: FILES[i % FILES.length], meta: prog.meta, config: SETS[cfgName], cfgKey: cfgName, cfgName })
      }
    })
  } else if (spec.kind === 'random') {
    const rng = new Rng(ctx.seed, 'random', ctx.id, spec.stream)
    for (let i = 0; i < spec.count; i++) {
      const r = rng.fork(i)
      const variant = r.weighted([[4, 'sloppy'], [3, 'strict'], [1.5, 'module'], [1.5, 'async']])
      const cfgName = r.pick(spec.cfgNames || NAMES)
      const plusEnabled = (SETS[cfgName].csiMethods || []).some(m => m.operator && m.src === 'plusOperator')
      const prog = genProgram(r, { strict: variant === 'strict', module: variant === 'module', asyncMain: variant === 'async', maxStmts: 24, plusEnabled })
      prog.meta.sigBase = 'random'
      prog.meta.stream = spec.stream
      prog.meta.index = i
      out.push({ code: prog.code, file: FILES[(i + spec.stream) % FILES.length], meta: prog.meta, config: SETS[cfgName], cfgKey: cfgName, cfgName })
      // every fifth synchronous program also runs with further operations spliced onto random sub-expressions
      if (i % 5 === 0 && variant !== 'async' && !/\basync\b|\bawait\b|\bPromise\b|w\.X\d+\??\.prototype/.test(prog.code)) {
        const sp = require('./gen_splice').spliceRunnable(r.fork('splice'), prog.code, !!prog.meta.module, 3)
        if (sp) out.push({ code: sp.code, file: FILES[(i + spec.stream) % FILES.length], meta: Object.assign({}, prog.meta, { sigBase: 'random', splices: sp.splices, spliced: true }), config: SETS[cfgName], cfgKey: cfgName, cfgName })
      }
    }
  }
  return out
}

module.exports = { plan, jobs, VARIANTS, withEol, EOLS }
