'use strict'
// E3: deterministic observable world + executor for input/output programs in fresh V8 contexts.
// Every interaction of the program with the world is appended to an event log; the k-th event can be made
// to throw (fault injection). Monitor state lives outside the contexts and is single-threaded.
const vm = require('vm')

const RESERVED = /^(_ddiast$|__datadog_)/

class WorldFault extends Error {
  constructor (k) { super('world fault ' + k); this.tag = 'F' + k; this.name = 'WorldFault' }
}
class WorldThrow extends Error {
  constructor (p) { super('world throw ' + p); this.tag = 'T:' + p; this.name = 'WorldThrow' }
}

function mkWorld (opts = {}) {
  const faultAt = opts.faultAt === undefined ? -1 : opts.faultAt
  const log = []
  let seq = 0
  let muted = 0
  const ids = new WeakMap()
  const callbacks = opts.schedule || null // re-entrancy schedule: array of ints consumed by cb functions

  function sum (v, d = 0) {
    if (v === null) return 'null'
    const t = typeof v
    if (t === 'object' || t === 'function') {
      if (ids.has(v)) return '#' + ids.get(v)
      if (d > 2) return t
      if (Array.isArray(v)) return '[' + v.map(x => sum(x, d + 1)).join(',') + ']'
      if (t === 'function') return 'fn:' + (v.name || '')
      if (v instanceof Error || (v && typeof v.message === 'string' && typeof v.stack === 'string')) return 'err:' + (v.constructor && v.constructor.name) + (v.tag !== undefined ? '#' + v.tag : '')
      let keys
      try { keys = Object.keys(v) } catch (e) { return 'obj' }
      if (v && typeof v.then === 'function') return 'promise'
      if (v && typeof v.next === 'function') return 'iter'
      return 'obj{' + keys.slice(0, 6).map(k => { let x; muted++; try { x = sum(v[k], d + 1) } catch (e) { x = '!' } finally { muted-- } return k + ':' + x }).join(',') + '}'
    }
    if (t === 'symbol') return v.toString()
    if (t === 'bigint') return v + 'n'
    if (t === 'undefined') return 'undefined'
    if (t === 'number') return 'n:' + (Object.is(v, -0) ? '-0' : String(v))
    if (t === 'string' && v.length > 4000) {
      // programs that double a string in a loop reach hundreds of MB within the execution timeout: log a digest
      // (length, both ends, 64 sampled code units), enough to tell two such values apart
      let h = 0
      const step = Math.max(1, Math.floor(v.length / 64))
      for (let i = 0; i < v.length; i += step) h = (Math.imul(h, 31) + v.charCodeAt(i)) | 0
      return 's:long:' + v.length + ':' + (h >>> 0).toString(16) + ':' + JSON.stringify(v.slice(0, 120)) + '…' + JSON.stringify(v.slice(-120))
    }
    return t[0] + ':' + JSON.stringify(v)
  }

  function ev (...a) {
    if (muted) return
    const k = seq++
    log.push(a.map(x => typeof x === 'string' ? x : sum(x)).join(' '))
    if (k === faultAt) throw new WorldFault(k)
  }

  const fnCache = new Map()
  function mkFn (path, kind) {
    if (fnCache.has(path)) return fnCache.get(path)
    const self = { [path]: function (...args) {
      ev('call', path, 'this=' + sum(this), ...args)
      switch (kind) {
        case 'null': return null
        case 'undef': return undefined
        case 'throw': throw new WorldThrow(path)
        case 'obj': return obj(path + '()', 2)
        case 'id': return args[0]
        case 'cb': { // call the callback(s) handed in: re-entrancy into program closures
          let r
          for (const a of args) if (typeof a === 'function') r = a(' ⟦' + path + '→cb⟧ ')
          return r
        }
        case 'num': return 7
        default: return ' ⟦' + path + '()⟧ '
      }
    } }[path]
    fnCache.set(path, self)
    return self
  }

  function valueFor (path, k, depth, store) {
    if (k === 'prototype' && /\.X\d*$/.test(path)) return protoObj(path + '.prototype')
    if (k === 'prototype') return mkFn(path + '.' + k, 'str')
    if (/^s\d*$/.test(k)) return ' ⟦' + path + '.' + k + '⟧ '
    if (/^sk\d*$/.test(k)) return ' ⟦' + path + '.' + k + '⟧ '
    if (/^n\d*$/.test(k)) return null
    if (/^u\d*$/.test(k)) return undefined
    if (/^i\d*$/.test(k)) return parseInt(k.slice(1) || '3', 10) % 5
    if (/^b\d*$/.test(k)) return (parseInt(k.slice(1) || '1', 10) % 2) === 1
    if (/^k\d*$/.test(k)) return 'sk' + k.slice(1)
    if (/^fnull\d*$/.test(k)) return mkFn(path + '.' + k, 'null')
    if (/^fundef\d*$/.test(k)) return mkFn(path + '.' + k, 'undef')
    if (/^fthrow\d*$/.test(k)) return mkFn(path + '.' + k, 'throw')
    if (/^fobj\d*$/.test(k)) return mkFn(path + '.' + k, 'obj')
    if (/^fnum\d*$/.test(k)) return mkFn(path + '.' + k, 'num')
    if (/^id\d*$/.test(k)) return mkFn(path + '.' + k, 'id')
    if (/^cb\d*$/.test(k)) return mkFn(path + '.' + k, 'cb')
    if (/^(f\d*|out|trim|trimStart|trimEnd|concat|substring|substr|slice|replace|replaceAll|join|split|at|toString|toUpperCase|toLowerCase|padStart|padEnd|repeat|charAt|indexOf|startsWith|normalize|aloneMethod|pad|noop|res|plusOperator|tplOperator|default|class|call|apply|constructor|valueOf)$/.test(k)) return mkFn(path + '.' + k, k === 'out' ? 'undef' : 'str')
    if (/^arr\d*$/.test(k)) return [' ⟦' + path + '.' + k + '.0⟧ ', ' ⟦' + path + '.' + k + '.1⟧ ']
    if (k === 'length') return 2
    if (k === 'then') return undefined // never a thenable
    if (depth < 3) return obj(path + '.' + k, depth + 1)
    return ' ⟦leaf:' + path + '.' + k + '⟧ '
  }

  function protoObj (path) { // w.X.prototype: reads are logged, values are the realm's String.prototype functions
    const p = new Proxy({}, {
      get (t, k) {
        if (typeof k === 'symbol') return undefined
        ev('get', path, k)
        const v = opts.stringProto ? opts.stringProto[k] : String.prototype[k]
        return typeof v === 'function' ? v : mkFn(path + '.' + k, 'str') // never undefined: calling through a missing prototype method is an error path outside C01's carve-outs
      }
    })
    ids.set(p, path)
    return p
  }

  const objCache = new Map()
  function obj (path, depth) {
    if (objCache.has(path)) return objCache.get(path)
    const store = new Map()
    const target = function () {}
    const p = new Proxy(target, {
      get (t, k, r) {
        if (typeof k === 'symbol') {
          if (k === Symbol.toPrimitive) { ev('toPrim?', path); return (hint) => { ev('toPrim', path, hint); return '⟦' + path + '⟧' } }
          if (k === Symbol.iterator) {
            if (!/\.it\d*$/.test(path)) return undefined
            ev('iter?', path)
            return function * () { ev('iter', path); yield ' ⟦' + path + '.0⟧ '; ev('iter-next', path); yield ' ⟦' + path + '.1⟧ ' }
          }
          return undefined
        }
        if (RESERVED.test(k)) return undefined
        ev('get', path, k)
        if (store.has(k)) return store.get(k)
        const v = valueFor(path, k, depth, store)
        if (v !== null && (typeof v === 'object' || typeof v === 'function')) store.set(k, v)
        return v
      },
      set (t, k, v) {
        if (typeof k === 'symbol' || RESERVED.test(k)) { return Reflect.set(t, k, v) }
        ev('set', path, k, v); store.set(k, v); return true
      },
      has (t, k) {
        if (typeof k === 'symbol') return false
        if (RESERVED.test(k)) return false
        // `with (w.scopeN)` lookups are not logged: the rewriter deliberately re-reads plain identifier
        // operands, which is only observable through a with-scope proxy (DESIGN 10, world limits)
        return false
      },
      deleteProperty (t, k) { ev('delete', path, String(k)); store.delete(k); return true },
      apply (t, th, args) { ev('apply', path, 'this=' + sum(th), ...args); return ' ⟦' + path + '()⟧ ' },
      construct (t, args) { ev('construct', path, ...args); return obj(path + '.new', Math.min(depth + 1, 3)) },
      ownKeys () { ev('ownKeys', path); return ['prototype', 'length', 'name', 'arguments', 'caller'].filter(k => Reflect.has(target, k)) },
      getOwnPropertyDescriptor (t, k) { return Reflect.getOwnPropertyDescriptor(t, k) }
    })
    ids.set(p, path)
    objCache.set(path, p)
    return p
  }

  const w = obj('w', 0)
  return {
    w,
    log,
    sum,
    mute (f) { muted++; try { return f() } finally { muted-- } },
    pushHook (s) { log.push(s) },
    events: () => seq
  }
}

// hooks: 'identity' | 'none' | 'record'
// Runs `code` in a fresh context. Returns {log, completion, hookCalls, timedOut}
async function run (code, opts = {}) {
  const sandbox = {}
  const ctx = vm.createContext(sandbox)
  const stringProto = vm.runInContext('String.prototype', ctx)
  const world = mkWorld({ faultAt: opts.faultAt, stringProto })
  sandbox.w = world.w
  const hookCalls = []
  if (opts.hooks === 'identity') {
    sandbox._ddiast = new Proxy({}, { get: (t, k) => typeof k === 'symbol' ? undefined : (res) => res, has: () => true })
  } else if (opts.hooks === 'record') {
    const recorder = (site) => new Proxy({}, {
      get: (t, k) => typeof k === 'symbol'
        ? undefined
        // `_ddiast.$s[17].name(...)`: the same recording hooks, tagged with the number of the call site (the caller patches
        // the text of the program it runs; see C03's marked-operand oracle)
        : (k === '$s' && site === undefined)
            ? new Proxy({}, { get: (t2, id) => typeof id === 'symbol' ? undefined : recorder(parseInt(id, 10)) })
            : function (res, ...ops) {
              const rec = { name: String(k), res, ops, at: world.events(), site }
              hookCalls.push(rec)
              if (opts.onHook) world.mute(() => opts.onHook(rec, world))
              return res
            },
      has: () => true
    })
    sandbox._ddiast = recorder(undefined)
  } else if (opts.hooks && typeof opts.hooks === 'object') {
    sandbox._ddiast = opts.hooks
  }
  if (opts.globals) Object.assign(sandbox, opts.globals)
  let completion
  let timedOut = false
  try {
    let v
    if (opts.module) {
      const m = new vm.SourceTextModule(code, { context: ctx })
      await m.link(() => { throw new Error('no imports in generated modules') })
      await m.evaluate({ timeout: opts.timeout || 1000 })
      v = m.namespace.default
      completion = 'ret ' + world.sum(v)
    } else {
      v = vm.runInContext(code, ctx, { timeout: opts.timeout || 1000, filename: opts.filename || 'prog.js' })
      if (v !== null && (typeof v === 'object') && !isProxyOfWorld(v) && typeof v.then === 'function') {
        try { const r = await v; completion = 'ret-async ' + world.sum(r) } catch (e) { completion = 'throw-async ' + errSum(e) }
      } else completion = 'ret ' + world.sum(v)
    }
  } catch (e) {
    if (e && e.code === 'ERR_SCRIPT_EXECUTION_TIMEOUT') { timedOut = true; completion = 'timeout' } else completion = 'throw ' + errSum(e)
  }
  return { log: world.log, completion, hookCalls, timedOut, ctx, world }
}

function isProxyOfWorld (v) { return false }

function errSum (e) {
  if (e === null || (typeof e !== 'object' && typeof e !== 'function')) return 'prim:' + String(e)
  const name = (e.constructor && e.constructor.name) || 'Object'
  return name + (e.tag !== undefined ? '#' + e.tag : '')
}

let acornLib = null
function compile (code, isModule) {
  // compile only (never run): V8's verdict on syntax. acorn is consulted first: node 20 can abort the whole
  // process (assertion in GetErrorSource) while decorating a SyntaxError for some malformed texts, so V8 is
  // only asked about texts acorn accepts; an acorn rejection counts as "not valid" (skipped and counted by callers).
  if (!acornLib) acornLib = require('../../vendor/acorn.js')
  try {
    acornLib.parse(code, { ecmaVersion: 'latest', sourceType: isModule ? 'module' : 'script', allowHashBang: true, allowReturnOutsideFunction: false, allowAwaitOutsideFunction: !!isModule })
  } catch (e) { return 'acorn: ' + String(e && e.message) }
  try {
    if (isModule) {
      // eslint-disable-next-line no-new
      new vm.SourceTextModule(code, { context: vm.createContext({}) })
    } else {
      // eslint-disable-next-line no-new
      new vm.Script(code, { filename: 'compile-only.js' })
    }
    return null
  } catch (e) { return String(e && e.message || e) }
}

module.exports = { mkWorld, run, compile, WorldFault, WorldThrow, RESERVED }
