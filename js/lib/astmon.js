'use strict'
// E4: independent re-parse (acorn 8.16, extracted from node's own binary) and structural monitors:
// eraser/aligner, normaliser, tree equality, hook-site census, structural hook-argument check.
const acorn = require('../../vendor/acorn.js')

const isObj = x => x && typeof x === 'object'
const SKIP = new Set(['start', 'end', 'loc', 'range', 'raw', '__hook', '__req', '__origOp', '__in', '__excl', '__paren', '__tagged', '__rawKept'])

function parse (code, opts = {}) {
  return acorn.parse(code, {
    ecmaVersion: 'latest',
    sourceType: opts.module ? 'module' : 'script',
    allowHashBang: true,
    allowReturnOutsideFunction: !opts.module,
    allowAwaitOutsideFunction: !!opts.module,
    preserveParens: !!opts.preserveParens,
    onComment: opts.onComment,
    locations: !!opts.locations
  })
}

// script first, module if that fails; returns {ast, module} or {error}
function parseAuto (code, opts = {}) {
  try { return { ast: parse(code, Object.assign({}, opts, { module: false })), module: false } } catch (e1) {
    try { return { ast: parse(code, Object.assign({}, opts, { module: true })), module: true } } catch (e2) { return { error: String(e1.message) } }
  }
}

function mapChildren (node, f) {
  for (const k of Object.keys(node)) {
    if (SKIP.has(k) || k === 'type') continue
    const v = node[k]
    if (Array.isArray(v)) node[k] = v.map(c => isObj(c) && c.type ? f(c, node, k) : c)
    else if (isObj(v) && v.type) node[k] = f(v, node, k)
  }
  return node
}

function walk (node, f, parent, key) {
  if (!isObj(node)) return
  if (Array.isArray(node)) { node.forEach(c => walk(c, f, parent, key)); return }
  if (!node.type) return
  if (f(node, parent, key) === false) return
  for (const k of Object.keys(node)) {
    if (SKIP.has(k) || k === 'type') continue
    const v = node[k]
    if (isObj(v)) walk(v, f, node, k)
  }
}

function clone (n) {
  if (Array.isArray(n)) return n.map(clone)
  if (!isObj(n)) return n
  if (n instanceof RegExp) return n
  const o = {}
  for (const k of Object.keys(n)) o[k] = clone(n[k])
  return o
}

function litKey (n) {
  if (n.regex) return '/' + n.regex.pattern + '/' + n.regex.flags
  if (n.bigint) return n.bigint + 'n'
  return n.value
}

// exact tree equality ignoring positions, raw spelling and annotations
function eq (a, b, path, diffs, max = 6) {
  if (diffs.length >= max) return
  if (Array.isArray(a) || Array.isArray(b)) {
    if (!Array.isArray(a) || !Array.isArray(b) || a.length !== b.length) { diffs.push(`${path}: list length ${a && a.length} vs ${b && b.length}`); return }
    for (let i = 0; i < a.length; i++) eq(a[i], b[i], path + '[' + i + ']', diffs, max)
    return
  }
  if (isObj(a) && isObj(b) && !(a instanceof RegExp) && !(b instanceof RegExp)) {
    if (a.type !== b.type) { diffs.push(`${path}: node ${a.type} vs ${b.type}`); return }
    if (a.type === 'Literal') {
      if (!Object.is(litKey(a), litKey(b))) diffs.push(`${path}: literal ${String(litKey(a)).slice(0, 40)} vs ${String(litKey(b)).slice(0, 40)}`)
      return
    }
    const keys = new Set([...Object.keys(a), ...Object.keys(b)])
    for (const k of keys) {
      if (SKIP.has(k)) continue
      if (k === 'directive') { if ((a[k] === undefined ? null : a[k]) !== (b[k] === undefined ? null : b[k])) diffs.push(`${path}.directive: ${a[k]} vs ${b[k]}`); continue }
      eq(a[k], b[k], path + '.' + k, diffs, max)
    }
    return
  }
  if (a instanceof RegExp || b instanceof RegExp) return
  if ((a === undefined && b === null) || (a === null && b === undefined)) return
  if ((a === undefined && b === false) || (a === false && b === undefined)) return
  if (!Object.is(a, b)) diffs.push(`${path}: ${String(a).slice(0, 40)} vs ${String(b).slice(0, 40)}`)
}

function isHookCall (n) {
  return n && n.type === 'CallExpression' && n.callee.type === 'MemberExpression' && !n.callee.computed && n.callee.object.type === 'Identifier' && n.callee.object.name === '_ddiast' && n.callee.property.type === 'Identifier'
}

function isPrologueIf (s) {
  return s && s.type === 'IfStatement' && s.test.type === 'BinaryExpression' && s.test.left.type === 'UnaryExpression' && s.test.left.operator === 'typeof' &&
    s.test.left.argument.type === 'Identifier' && s.test.left.argument.name === '_ddiast' && s.test.right.type === 'Literal' && s.test.right.value === 'undefined'
}

function makeEraser (prefix) {
  const esc = prefix.replace(/[.*+?^${}()|[\]\\]/g, '\\$&')
  const tempRe = new RegExp('^__datadog_' + esc + '_\\d+$')
  const isTemp = n => n && n.type === 'Identifier' && tempRe.test(n.name)
  const stats = { seqsNoHook: 0, hooks: 0, seqs: 0, guards: 0, undispatch: 0, lets: 0, prologue: 0, spreads: 0, leftover: [] }
  const litEq = (a, b) => a.type === 'Literal' && b.type === 'Literal' && Object.is(litKey(a), litKey(b))

  class Env {
    constructor () { this.raw = new Map(); this.full = new Map() }
    has (k) { return this.full.has(k) }
    get (k) { return this.full.get(k) }
    getRaw (k) { return this.raw.get(k) }
    set (k, rawDef) { this.raw.set(k, rawDef); this.full.set(k, subst(rawDef, this)) }
  }

  // substitute temporaries by their definitions, undoing .call re-dispatch and spread materialisation
  function subst (node, env) {
    if (!isObj(node) || !node.type) return node
    if (isTemp(node) && env.has(node.name)) return clone(env.get(node.name))
    if (node.type === 'CallExpression' && node.callee.type === 'MemberExpression' && !node.callee.computed && (node.callee.property.name === 'call' || node.callee.property.name === 'apply') &&
        isTemp(node.callee.object) && env.has(node.callee.object.name) && node.arguments.length >= 1) {
      const def = env.getRaw(node.callee.object.name)
      const first = node.arguments[0]
      // tf.call(tr, ...) with tf = tr.m  ->  R.m(...)
      if (node.callee.property.name === 'call' && def && def.type === 'MemberExpression' && !def.computed &&
          ((isTemp(def.object) && isTemp(first) && def.object.name === first.name) || litEq(def.object, first))) {
        stats.undispatch++
        return { type: 'CallExpression', callee: { type: 'MemberExpression', object: subst(first, env), property: clone(def.property), computed: false, optional: false }, arguments: node.arguments.slice(1).map(a => subst(a, env)), optional: false, __hook: node.__hook }
      }
    }
    if (node.type === 'SpreadElement' && isTemp(node.argument) && env.has(node.argument.name)) {
      const def = env.getRaw(node.argument.name)
      if (def.type === 'ArrayExpression' && def.elements.length === 1 && def.elements[0] && def.elements[0].type === 'SpreadElement') { stats.spreads++; return { type: 'SpreadElement', argument: subst(def.elements[0].argument, env) } }
    }
    const c = Object.assign({}, node)
    return mapChildren(c, ch => subst(ch, env))
  }

  function countIdent (node, name) { let c = 0; walk(node, n => { if (n.type === 'Identifier' && n.name === name) c++ }); return c }

  function optionalize (alt, name, base) {
    let done = false
    function w (n) {
      if (!isObj(n) || !n.type) return n
      if (n.type === 'MemberExpression' && n.object.type === 'Identifier' && n.object.name === name) { done = true; return Object.assign({}, n, { object: base, optional: true, property: n.computed ? w(n.property) : n.property }) }
      if (n.type === 'CallExpression' && n.callee.type === 'Identifier' && n.callee.name === name) { done = true; return Object.assign({}, n, { callee: base, optional: true, arguments: n.arguments.map(w) }) }
      const c = Object.assign({}, n)
      return mapChildren(c, w)
    }
    const r = w(alt)
    return done ? r : null
  }

  function flattenChain (n) {
    if (!isObj(n) || !n.type) return n
    if (n.type === 'ChainExpression') return flattenChain(n.expression)
    if (n.type === 'MemberExpression') return Object.assign({}, n, { object: flattenChain(n.object) })
    if (n.type === 'CallExpression') return Object.assign({}, n, { callee: flattenChain(n.callee) })
    return n
  }

  function eraseSeq (node) {
    const ex = node.expressions
    const n = ex.length
    let k = 0
    while (k < n - 1 && ex[k].type === 'AssignmentExpression' && ex[k].operator === '=' && isTemp(ex[k].left)) k++
    if (k === 0 || k !== n - 1) return node
    const env = new Env()
    for (let i = 0; i < k; i++) env.set(ex[i].left.name, ex[i].right)
    const last = ex[n - 1]
    stats.seqs++
    let hasHook = false
    walk(node, x => { if (x.__hook) hasHook = true })
    if (!hasHook) stats.seqsNoHook++
    if (last.type === 'ConditionalExpression' && last.test.type === 'BinaryExpression' && last.test.operator === '==' && isTemp(last.test.left) &&
        last.test.right.type === 'Literal' && last.test.right.value === null && last.consequent.type === 'Identifier' && last.consequent.name === 'undefined') {
      const g = last.test.left.name
      const gIdx = ex.findIndex((e, i) => i < k && e.left.name === g)
      if (gIdx < 0) return node
      stats.guards++
      const env2 = new Env()
      for (let i = 0; i < k; i++) if (ex[i].left.name !== g) env2.raw.set(ex[i].left.name, ex[i].right)
      for (let i = 0; i < k; i++) if (ex[i].left.name !== g) env2.full.set(ex[i].left.name, subst(ex[i].right, env2))
      const gdefRaw = ex[gIdx].right
      let alt = last.alternate
      const base = subst(gdefRaw, env2)
      // optional invocation: (t0 = obj, t1 = t0.f, t1 == null ? undefined : t1.call(t0, args))
      // ... or (t0 = obj, t1 = t0?.f, t1 == null ? undefined : t1.call(t0, args)) for obj?.f?.(args)
      const gMember = gdefRaw.type === 'ChainExpression' && gdefRaw.expression.type === 'MemberExpression' && gdefRaw.expression.optional ? gdefRaw.expression : gdefRaw
      if (gMember.type === 'MemberExpression' && isTemp(gMember.object)) {
        const tobj = gMember.object.name
        let found = false
        const w = (x) => {
          if (!isObj(x) || !x.type) return x
          if (x.type === 'CallExpression' && x.callee.type === 'MemberExpression' && !x.callee.computed && x.callee.property.name === 'call' && x.callee.object.type === 'Identifier' && x.callee.object.name === g &&
              x.arguments[0] && x.arguments[0].type === 'Identifier' && x.arguments[0].name === tobj) {
            found = true
            return { type: 'CallExpression', callee: { type: 'Identifier', name: g }, arguments: x.arguments.slice(1).map(w), optional: false }
          }
          const c = Object.assign({}, x)
          return mapChildren(c, w)
        }
        const alt2 = w(alt)
        if (found) alt = alt2
      }
      const altS = subst(alt, env2)
      if (countIdent(altS, g) !== 1) return node
      const r = optionalize(altS, g, base)
      if (!r) return node
      return { type: 'ChainExpression', expression: flattenChain(r) }
    }
    return subst(last, env)
  }

  function erase (node) {
    if (!isObj(node) || !node.type) return node
    mapChildren(node, erase) // post-order
    switch (node.type) {
      case 'Program': {
        const b = node.body
        for (let i = 0; i < b.length; i++) {
          if (isPrologueIf(b[i])) {
            stats.prologue++
            if (i > 0 && b[i - 1].type === 'EmptyStatement') b.splice(i - 1, 2); else b.splice(i, 1)
            break
          }
        }
        return node
      }
      case 'BlockStatement': case 'StaticBlock': {
        const b = node.body
        for (let i = 0; i < b.length; i++) {
          if (b[i].type === 'VariableDeclaration' && b[i].kind === 'let' && b[i].declarations.length > 0 && b[i].declarations.every(d => isTemp(d.id) && !d.init)) { b.splice(i, 1); stats.lets++; break }
          if (b[i].directive === undefined) break
        }
        return node
      }
      case 'CallExpression':
        if (isHookCall(node) && node.arguments.length >= 1 && node.arguments[0].type !== 'SpreadElement') {
          stats.hooks++
          const r = Object.assign({}, node.arguments[0])
          r.__hook = { name: node.callee.property.name, args: node.arguments.slice(1) }
          return r
        }
        return node
      case 'SequenceExpression':
        return eraseSeq(node)
      case 'AssignmentExpression': {
        // (t0 = O)[t1 = K] = (t2 = t0[t1], hook(t2 + E, t2, E))  ->  O[K] += E   (children are erased already,
        // so the right side reads `t0[t1] + E` with the hook annotation)
        const l = node.left
        if (node.operator !== '=' || l.type !== 'MemberExpression') return node
        const isHoist = x => x && x.type === 'AssignmentExpression' && x.operator === '=' && isTemp(x.left)
        const objH = isHoist(l.object)
        const keyH = l.computed && isHoist(l.property)
        if (!objH && !keyH) return node
        const r = node.right
        if (!(r.type === 'BinaryExpression' && r.operator === '+' && r.__hook && r.left.type === 'MemberExpression' && !!r.left.computed === !!l.computed)) return node
        const d = []
        if (objH) { if (!(isTemp(r.left.object) && r.left.object.name === l.object.left.name)) return node } else eq(r.left.object, l.object, '', d, 1)
        if (keyH) { if (!(isTemp(r.left.property) && r.left.property.name === l.property.left.name)) return node } else eq(r.left.property, l.property, '', d, 1)
        if (d.length) return node
        stats.targetsSplit = (stats.targetsSplit || 0) + 1
        const target = Object.assign({}, l, { object: objH ? l.object.right : l.object, property: keyH ? l.property.right : l.property })
        return { type: 'AssignmentExpression', operator: '+=', left: target, right: r.right, __hook: r.__hook, __origOp: undefined }
      }
      default:
        return node
    }
  }

  function leftovers (ast) { // injected names that survived erasure
    const out = []
    walk(ast, n => { if (n.type === 'Identifier' && (tempRe.test(n.name) || n.name === '_ddiast')) out.push(n.name) })
    return out
  }

  return { erase, stats, isTemp, tempRe, leftovers }
}

// Identities applied to BOTH sides before comparison (DESIGN 2.4)
function simpleTarget (t) {
  if (t.type === 'Identifier') return true
  if (t.type === 'MemberExpression') {
    const o = t.object
    if (o.type !== 'Identifier' && o.type !== 'ThisExpression' && o.type !== 'Super') return false
    if (!t.computed) return true
    return t.property.type === 'Literal' || t.property.type === 'Identifier'
  }
  return false
}
// which part of a compound-assignment target would be evaluated twice by `T = T + E`
function targetKind (t) {
  if (t.type !== 'MemberExpression') return 'other-target'
  if (t.object.type !== 'Identifier' && t.object.type !== 'ThisExpression' && t.object.type !== 'Super') return 'object-expression'
  if (t.computed) return 'computed-key'
  return 'simple'
}
// Erased outputs contain `T = T + E` for an input `T += E`. For a simple T this is an identity (normalize);
// for any other T the duplication is real (DESIGN 7-D5): it is folded back here so that the rest of the file
// is still compared, and returned as findings.
function foldDuplicatedTargets (ast) {
  const found = []
  walk(ast, (node) => {
    if (node.type === 'AssignmentExpression' && node.operator === '=' && node.right.type === 'BinaryExpression' && node.right.operator === '+' && node.right.__hook &&
        !simpleTarget(node.left) && sameTarget(node.left, node.right.left)) {
      found.push({ kind: targetKind(node.left) })
      const h = node.right.__hook
      node.operator = '+='
      node.__origOp = '='
      node.right = node.right.right
      node.__hook = h
    }
  })
  return found
}
function sameTarget (a, b) { const d = []; eq(a, b, '', d, 1); return d.length === 0 }

function normalize (node) {
  if (!isObj(node) || !node.type) return node
  mapChildren(node, normalize)
  if (node.type === 'ParenthesizedExpression') {
    const inner = node.expression
    if (node.__req && !inner.__req) inner.__req = node.__req
    inner.__paren = true
    return inner
  }
  if (node.type === 'ArrowFunctionExpression' && node.body.type === 'BlockStatement' && node.body.body.length === 1 && node.body.body[0].type === 'ReturnStatement' && node.body.body[0].argument) {
    node.body = node.body.body[0].argument; node.expression = true
  }
  if (node.type === 'AssignmentExpression' && node.operator === '=' && node.right.type === 'BinaryExpression' && node.right.operator === '+' && simpleTarget(node.left) && sameTarget(node.left, node.right.left)) {
    const h = node.right.__hook
    const rq = node.right.__req
    node.operator = '+='
    node.__origOp = '='
    node.right = node.right.right
    if (h) node.__hook = h
    if (rq) node.__req = rq
  }
  if (node.type === 'ChainExpression') {
    const fl = (n) => { if (!isObj(n) || !n.type) return n; if (n.type === 'ChainExpression') return fl(n.expression); if (n.type === 'MemberExpression') return Object.assign(n, { object: fl(n.object) }); if (n.type === 'CallExpression') return Object.assign(n, { callee: fl(n.callee) }); return n }
    node.expression = fl(node.expression)
  }
  // L.m.call(L, ...) == L.m(...) for a literal L
  if (node.type === 'CallExpression' && node.callee.type === 'MemberExpression' && !node.callee.computed && node.callee.property.name === 'call' && node.callee.object.type === 'MemberExpression' && !node.callee.object.computed &&
      node.callee.object.object.type === 'Literal' && node.arguments[0] && node.arguments[0].type === 'Literal' && Object.is(litKey(node.arguments[0]), litKey(node.callee.object.object))) {
    return { type: 'CallExpression', callee: node.callee.object, arguments: node.arguments.slice(1), optional: false, __hook: node.__hook, __req: node.__req }
  }
  // the raw spelling of a template chunk is observable only through a tag function: compared for tagged templates
  if (node.type === 'TaggedTemplateExpression') for (const q of node.quasi.quasis) { if (q.__rawKept !== undefined) q.value.raw = q.__rawKept; delete q.__rawKept }
  if (node.type === 'TemplateElement') { node.__rawKept = node.value.raw; node.value = { cooked: node.value.cooked, raw: node.value.cooked == null ? node.value.raw : undefined } }
  if (node.type === 'Program') { delete node.sourceType }
  return node
}

// every `_ddiast.<name>(...)` call site, plus every other mention of `_ddiast`
function census (ast) {
  const sites = []
  const otherRefs = []
  walk(ast, (n, parent, key) => {
    if (isHookCall(n)) sites.push({ name: n.callee.property.name, node: n })
    if (n.type === 'Identifier' && n.name === '_ddiast' && !(parent && parent.type === 'MemberExpression' && key === 'object' && !parent.computed)) otherRefs.push(parent ? parent.type + '.' + key : 'root')
    if (n.type === 'MemberExpression' && n.object.type === 'Identifier' && n.object.name === '_ddiast' && n.computed) otherRefs.push('computed-member')
  })
  return { sites, otherRefs }
}

function src (code, n) { return code.slice(n.start, n.end) }

module.exports = { targetKind, foldDuplicatedTargets, parse, parseAuto, walk, mapChildren, clone, eq, makeEraser, normalize, census, isHookCall, isPrologueIf, litKey, simpleTarget, src, isObj }
