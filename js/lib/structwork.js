'use strict'
// Workload shared by the structural checks (C02, C04, C05, C08, C12, C15...): corpus + catalogue + random programs.
const corpus = require('./corpus')
const execwork = require('./execwork')
const gsplice = require('./gen_splice')
const { Rng, chunk } = require('./util')
const { SETS, NAMES } = require('./cfgset')

function plan (ctx, o = {}) {
  const shards = []
  const files = corpus.list()
  const rng = new Rng(ctx.seed, 'structplan', ctx.id)
  const cfgNames = o.cfgNames || NAMES
  let picks
  if (ctx.tier === 'thorough') {
    picks = []
    const nCfg = o.thoroughCorpusConfigs || 3
    files.forEach((f, i) => { for (let c = 0; c < nCfg; c++) picks.push({ name: f.name, kind: f.kind, cfg: cfgNames[(i + c * 3 + ctx.seed) % cfgNames.length] }) })
    files.forEach((f, i) => picks.push({ name: f.name, kind: f.kind, cfg: cfgNames[(i + 1 + ctx.seed) % cfgNames.length], eol: i % 4 ? 'crlf' : 'cr' }))
  } else {
    const n = o.quickCorpus === undefined ? 150 : o.quickCorpus
    picks = rng.sample(files, n).map((f, i) => ({ name: f.name, kind: f.kind, cfg: cfgNames[(i + ctx.seed) % cfgNames.length] }))
    // a slice of the same files with Windows line endings
    rng.sample(files, Math.ceil(n / 5)).forEach((f, i) => picks.push({ name: f.name, kind: f.kind, cfg: cfgNames[(i + 1 + ctx.seed) % cfgNames.length], eol: 'crlf' }))
  }
  for (const c of chunk(picks, o.corpusPerShard || 25)) shards.push({ kind: 'corpus', items: c })
  // corpus files with enabled operations spliced onto random expression nodes (structural / compile-only monitors)
  if (o.splice !== false) {
    const nSplice = ctx.tier === 'thorough' ? (o.thoroughSplice || 6000) : (o.quickSplice === undefined ? 240 : o.quickSplice)
    for (let k = 0; k < Math.ceil(nSplice / 60); k++) shards.push({ kind: 'splice', count: Math.min(60, nSplice - k * 60), stream: k, cfgNames })
  }
  if (o.generated !== false) {
    for (const s of execwork.plan(ctx, Object.assign({ quickRandom: 500, thoroughRandom: 10000, cfgNames }, o.exec || {}))) shards.push(s)
  }
  return shards
}

function jobs (spec, ctx) {
  if (spec.kind === 'corpus') {
    return spec.items.map(it => ({
      code: execwork.withEol(corpus.read(it.name), it.eol || 'lf'),
      file: '/app/lib/' + it.name,
      meta: { kind: 'corpus', name: it.name, module: it.kind === 'module', sigBase: 'corpus:' + it.name + (it.eol ? ':' + it.eol : ''), eol: it.eol },
      config: SETS[it.cfg],
      cfgKey: it.cfg,
      cfgName: it.cfg
    }))
  }
  if (spec.kind === 'splice') {
    const rng = new Rng(ctx.seed, 'splice', ctx.id, spec.stream)
    const names = spec.cfgNames || NAMES
    return gsplice.splice(rng, corpus.list(), spec.count).map((p, i) => {
      const cn = names[(i + spec.stream) % names.length]
      return { code: p.code, file: '/app/lib/' + p.meta.name, meta: p.meta, config: SETS[cn], cfgKey: cn, cfgName: cn }
    })
  }
  return execwork.jobs(spec, ctx)
}

module.exports = { plan, jobs }
