'use strict'
// Workload shared by the structural checks (C02, C04, C05, C08, C12, C15...): corpus + catalogue + random programs.
const corpus = require('./corpus')
const execwork = require('./execwork')
const { Rng, chunk } = require('./util')
const { SETS, NAMES } = require('./cfgset')

function plan (ctx, o = {}) {
  const shards = []
  const files = corpus.list()
  const rng = new Rng(ctx.seed, 'structplan', ctx.id)
  const cfgNames = o.cfgNames || NAMES
  let picks
  if (ctx.tier === 'thorough') {
    picks = []
    const nCfg = o.thoroughCorpusConfigs || 3
    files.forEach((f, i) => { for (let c = 0; c < nCfg; c++) picks.push({ name: f.name, kind: f.kind, cfg: cfgNames[(i + c * 3 + ctx.seed) % cfgNames.length] }) })
  } else {
    const n = o.quickCorpus === undefined ? 150 : o.quickCorpus
    picks = rng.sample(files, n).map((f, i) => ({ name: f.name, kind: f.kind, cfg: cfgNames[(i + ctx.seed) % cfgNames.length] }))
  }
  for (const c of chunk(picks, o.corpusPerShard || 25)) shards.push({ kind: 'corpus', items: c })
  if (o.generated !== false) {
    for (const s of execwork.plan(ctx, Object.assign({ quickRandom: 500, thoroughRandom: 10000, cfgNames }, o.exec || {}))) shards.push(s)
  }
  return shards
}

function jobs (spec, ctx) {
  if (spec.kind === 'corpus') {
    return spec.items.map(it => ({
      code: corpus.read(it.name),
      file: '/app/lib/' + it.name,
      meta: { kind: 'corpus', name: it.name, module: it.kind === 'module', sigBase: 'corpus:' + it.name },
      config: SETS[it.cfg],
      cfgKey: it.cfg,
      cfgName: it.cfg
    }))
  }
  return execwork.jobs(spec, ctx)
}

module.exports = { plan, jobs }
