'use strict'
// Named configurations shared by the execution-based checks.
const { cfg, FULL, RENAMED, STRING_METHODS } = require('./configs')
const ALONE = { src: 'aloneMethod', allowedWithoutCallee: true }
const SETS = {
  FULL,
  RENAMED,
  PLUS_ONLY: cfg({ tpl: false, methods: [] }),
  TPL_ONLY: cfg({ plus: false, methods: [] }),
  METHODS_ONLY: cfg({ plus: false, tpl: false, methods: STRING_METHODS.concat([ALONE]) }),
  SUBSET: cfg({ methods: ['trim', 'concat', { src: 'join', dst: 'arrayJoin' }], verbosity: 'OFF' }),
  NO_PREFIX_OPTION: cfg({ prefix: null, methods: STRING_METHODS.concat([ALONE]) }),
  COMMENTS: cfg({ comments: true, methods: STRING_METHODS.concat([ALONE]) })
}
const NAMES = Object.keys(SETS)
module.exports = { SETS, NAMES }
