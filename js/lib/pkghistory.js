'use strict'
// Call histories through the REAL package layer (main.js CacheRewriter / NonCacheRewriter over the shimmed native module):
// one package instance (module-level caches, per-instance state) serves a random sequence of calls in which several
// paths share a base name, several paths carry byte-identical code, and the same (code, file) comes back later.
// Every call is also issued alone on a freshly loaded package instance: the reference for "independent of earlier calls".
const P = require('./pkgshim')
const { cfg, STRING_METHODS, FULL, RENAMED } = require('./configs')

const CONFIGS = [
  ['DEBUG', FULL],
  ['OFF', cfg({ methods: STRING_METHODS, verbosity: 'OFF' })],
  ['DEFAULT-VERBOSITY', cfg({ methods: STRING_METHODS })],
  ['MANDATORY-COMMENTS', cfg({ methods: STRING_METHODS, verbosity: 'MANDATORY', comments: true })],
  ['RENAMED-NO-LITERALS', Object.assign({}, RENAMED, { literals: false })],
  ['RENAMED-CHAIN', Object.assign({}, RENAMED, { chainSourceMap: true, comments: true })]
]

const ALARMING = ['unreachable', 'RuntimeError: unreachable executed', 'memory access out of bounds', 'index out of bounds', 'recursive use of an object detected', 'null pointer passed to rust', 'panicked at', 'wasm', 'Maximum call stack size exceeded', 'ENOENT', 'EACCES', 'timeout', 'aborted', 'fatal', 'out of memory', 'TypeError', 'not a function', 'undefined']

function programs (rng) {
  const id = rng.int(100000)
  return [
    ['greet', `'use strict'\nfunction greet${id} (name, greeting) {\n  const msg = greeting + ', ' + name\n  return msg.trim() + '!'\n}\nmodule.exports = { greet${id}, label: 'a-label-long-enough-${id}' }\n`],
    ['tpl', `function t${id} (a, b) {\n  let acc = \`\${a}:\${b()}\`\n  acc += a\n  return acc.concat(b(), 'x')\n}\nmodule.exports = t${id}\n`],
    ['optchain', `function o${id} (a) {\n  return a?.trim().substring(1)\n}\nexports.o = o${id}\n`],
    ['methods-only', `function mo${id} (a, b) {\n  return a.substring(1).concat(b.trim()).toUpperCase()\n}\nexports.mo = mo${id}\n`],
    ['notmodified', `function n${id} (a) {\n  return a * 2 + 1 - a\n}\nmodule.exports = n${id}\nconst text = 'some-literal-text-${id}'\n`],
    // the same text with one character changed (equal length): nothing to instrument / one operation
    ['edit-minus', `function m${id} (a, b) {\n  return a - b\n}\nexports.m = m${id}\n`],
    ['edit-plus', `function m${id} (a, b) {\n  return a + b\n}\nexports.m = m${id}\n`],
    ['literal-only', `function l${id} () {\n  return 'a' + 'b'\n}\nexports.l = l${id}\n`],
    ['syntax-error', `function s${id} (a) {\n  return a + ) \n}\n`],
    // a failing call whose diagnostic (file name + source excerpt) carries words that error-classifying code tends to look for
    ['syntax-error-with-alarming-words', `function e${id} (a) {\n  // ${rng.pick(ALARMING)}: ${rng.pick(ALARMING)}\n  return a + ) // ${rng.pick(ALARMING)}\n}\n`],
    ['name-collision', `function c${id} (a, b) {\n  const __datadog_test_0 = a /* ${rng.pick(ALARMING)} */\n  return __datadog_test_0 + b()\n}\n`]
  ]
}

function canon (v) {
  if (Array.isArray(v)) return v.map(canon)
  if (v && typeof v === 'object') { const o = {}; for (const k of Object.keys(v).sort()) o[k] = canon(v[k]); return o }
  return v
}

// comparable form of a package response: content, metrics (key order irrelevant), literals as a set
function fingerprint (resp) {
  if (resp && resp.error !== undefined) return JSON.stringify({ error: resp.error })
  if (!resp) return 'no-response'
  const lit = resp.literalsResult ? { file: resp.literalsResult.file, literals: (resp.literalsResult.literals || []).map(l => l.value + '\u0000' + (l.locations || []).map(x => `${x.line}:${x.column}:${x.ident}`).sort().join('|')).sort() } : null
  return JSON.stringify({ content: resp.content, m: canon(resp.metrics), lit })
}

function callOnce (Rewriter, config, code, file) {
  try { return new Rewriter(config).rewrite(code, file) } catch (e) { return { error: String(e && e.message) } }
}

// returns { calls: [{ step, kind, cfgName, rewriter, file, code, response, fresh }] }
function runHistory (rng, tag) {
  const pkg = P.loadPackage()
  const progs = programs(rng)
  const root = `/srv/pk/${tag}`
  const w1 = rng.pick(ALARMING).replace(/[:/]/g, ' '); const w2 = rng.pick(ALARMING).replace(/[:/]/g, ' ')
  const paths = [`${root}/${w1}/index.js`, `${root}/lib/${w2}.js`, `${root}/app/index.js`, `${root}/app/node_modules/dep/index.js`, `${root}/lib/index.js`, `${root}/app/util.js`, `${root}/lib/util.js`, `${root}/app/node_modules/dep/lib/util.js`]
  const instances = new Map() // cfgName:rewriterKind -> instance (kept for the whole history)
  const inst = (cfgName, config, kind) => { const k = cfgName + ':' + kind; if (!instances.has(k)) instances.set(k, new pkg[kind](config)); return instances.get(k) }
  const calls = []
  const len = rng.range(8, 28)
  // few programs and few configurations per history, so that identical code meets different paths often
  const localProgs = rng.sample(progs, rng.range(2, 5))
  for (const pair of [['edit-minus', 'edit-plus']]) { const has = pair.filter(k => localProgs.some(p => p[0] === k)); if (has.length === 1) localProgs.push(progs.find(p => p[0] === pair.find(k => k !== has[0]))) }
  const localCfgs = rng.sample(CONFIGS, rng.range(1, 3))
  // (a configuration with renamed hooks and literals off meets the program that only calls methods)
  if (localCfgs.some(c => c[0] === 'RENAMED-NO-LITERALS') && !localProgs.some(p => p[0] === 'methods-only')) localProgs.push(progs.find(p => p[0] === 'methods-only'))
  for (let step = 0; step < len; step++) {
    const [kind, code] = rng.pick(localProgs)
    const [cfgName, config] = rng.pick(localCfgs)
    const file = rng.pick(paths)
    const rewriter = rng.bool(0.75) ? 'Rewriter' : 'NonCacheRewriter'
    let response
    try { response = inst(cfgName, config, rewriter).rewrite(code, file) } catch (e) { response = { error: String(e && e.message) } }
    calls.push({ step, kind, cfgName, config, rewriter, file, code, response })
  }
  // references: each distinct (config, code, file, rewriter kind) alone on a fresh package instance
  const memo = new Map()
  for (const c of calls) {
    const k = c.cfgName + '\u0000' + c.rewriter + '\u0000' + c.file + '\u0000' + c.code
    if (!memo.has(k)) { const fresh = P.loadPackage(); memo.set(k, callOnce(fresh[c.rewriter], c.config, c.code, c.file)) }
    c.fresh = memo.get(k)
    // and what the native rewriter itself answers to (config, code, file), without any package code in between
    const kn = 'native\u0000' + c.cfgName + '\u0000' + c.file + '\u0000' + c.code
    if (!memo.has(kn)) { let nat; try { nat = new P.ShimRewriter(c.config).rewrite(c.code, c.file) } catch (e) { nat = { error: String(e && e.message) } } memo.set(kn, nat) }
    c.native = memo.get(kn)
  }
  return { calls }
}

module.exports = { runHistory, fingerprint, CONFIGS }
