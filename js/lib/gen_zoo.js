'use strict'
// "Syntax zoo": small programs exercising unusual but valid spellings and constructs next to an instrumented
// operation (so that the file is printed by the rewriter). Each snippet is the body of `main(w)`; its result is a
// value that reveals the construct's meaning (a literal re-spelled to another value changes the result).
const ZOO = [
  ['numeric-separators-exp', "return [1_000_000, 0.1e-7, 1e21, 0x1F, 0o17, 0b101, .5, 5., 0.000001, 1e-7, 123456789012345680000].join('|') + w.s1"],
  ['legacy-octal-sloppy', "return [010, 08, 0777, 09.5].join('|') + w.s1", { sloppy: true }],
  ['bigint', 'return String(2n ** 64n) + String(0x1Fn) + String(9007199254740993n) + w.s1'],
  ['negative-zero', 'return [Object.is(-0, 0 * -1), 1 / -0, -0 + w.i1].join() + w.s1'],
  ['string-escapes', "return ['\\x41\\u0042\\u{43}\\0\\b\\v\\f', 'a\\\nb', '\\u2028\\u2029', \"q'\\\"\"].map(x => [...x].map(c => c.codePointAt(0)).join('.')).join('|') + w.s1"],
  ['legacy-octal-escape-sloppy', "return ['\\08', '\\101', '\\7'].map(x => [...x].map(c => c.codePointAt(0)).join('.')).join('|') + w.s1", { sloppy: true }],
  ['nonascii-with-escapes-string', "return ['[\\\\uD800-\\\\uDBFF][\\\\uDC00-\\\\uDFFF]|[·•]', 'é\\n\\x41\\u0041\\u{1F600}\\\\u0041 \\\\uD800 € \\\\x5c', \"ñ\\'\\\"\\\\\"].map(x => x.length + ':' + [...x].map(c => c.codePointAt(0).toString(16)).join('.')).join('|') + w.s1"],
  ['nonascii-with-escapes-template', 'return [`C:\\x5cnotes\\x5crésumé`, `é\\x60\\x24{x}\\u0041€`, `ü${w.i1}\\x5c${w.i2}😀\\u{5c}`].map(x => x.length + \':\' + [...x].map(c => c.codePointAt(0).toString(16)).join(\'.\')).join(\'|\') + w.s1'],
  ['nonascii-regex-and-keys', "const o = { 'clé': 1, 'ключ\\n': 2, [`ky\\x5cé`]: 3 }; return Object.keys(o).map(k => [...k].map(c => c.codePointAt(0)).join('.')).join('|') + /[é€]\\u0041\\x5c\\//u.source + /😀{2}/u.test('😀😀') + w.s1"],
  ['line-continuations-and-raw-breaks', "const a = 'one\\\ntwo\\\n  three', b = \"x\\\ny\"; const t = `l1\nl2\\\nl3`; /* block\n comment */ const r = String.raw`r1\nr2\\\nr3`; // line comment\nreturn [a, b, t, r].map(x => x.length + ':' + [...x].map(c => c.codePointAt(0)).join('.')).join('|') + w.s1 + 'k\\\nz'"],
  ['raw-ls-ps-in-strings', "return ['a\u2028b', \"c\u2029d\", `e\u2028f`].map(x => x.length + ':' + x.charCodeAt(1)).join('|') + w.s1 /* \u2028 in comment */"],
  ['lone-surrogate-escape', "return ['\\ud83d', '\\ud83d\\ude00', '\\udc00x'].map(x => x.length + ':' + x.charCodeAt(0)).join('|') + w.s1"],
  ['template-raw', 'return String.raw`a\\n${w.i1}\\u0041\\x41b` + `c\\n\\u0041`.length + w.s1'],
  ['tagged-invalid-escape', 'return ((s) => String(s[0]) + s.raw[0])`\\unicode and \\xerxes` + w.s1'],
  ['template-nested-backticks', 'return `a${`b\\`${w.i1}\\``}c$\\{x}` + w.s1'],
  ['regex-forms', "return [/[/]\\/(?<n>a)\\k<n>/u.source, /a/dgimsuy.flags, /[\\p{L}--[a-z]]/v.flags, /\\//.test('/'), 'x/y'.split(/\\//).length].join('|') + w.s1"],
  ['regex-vs-division', 'const g = 2, i = 3; let a = 12; return [a / g / i, a /g/i, (a++ / g)].join() + w.s1'],
  ['exponent-unary', 'return [(-2) ** 2, 2 ** -1, 2 ** 3 ** 2, (2 ** 3) ** 2, -(2 ** 2)].join() + w.s1'],
  ['in-instanceof-precedence', "return [('a' in { a: 1 }) + w.s1, (1 + 2) * 3, 1 + (2 * 3), (1, 2) + w.s2, !('x' in {}), typeof typeof 1, void 0 ?? 'n'].join('|')"],
  ['nullish-logical-mix', 'return [(null ?? 1) || 2, (0 || null) ?? 3, 0 ?? (1 && 2), (w.n1 ?? w.u1) === undefined].join() + w.s1'],
  ['logical-assignment', 'let a = null, b = 0, c = 1; a ??= w.s1; b ||= w.s2; c &&= w.s3; return a + b + c'],
  ['optional-catch-finally', "let r = ''; try { throw 1 } catch { r += 'c' } finally { r += 'f' } try { r += 't' } finally { r += w.s1 } return r"],
  ['labels-break-continue', "let r = ''; a: for (let i = 0; i < 3; i++) { b: for (let j = 0; j < 3; j++) { if (j === 1) continue a; if (i === 2) break a; r += i + '' + j + w.s1 } } c: { r += 'x'; break c } return r"],
  ['switch-fallthrough-default-middle', "let r = ''; for (const k of [1, 2, 3, 9]) switch (k) { case 1: r += 'a'; default: r += 'd'; case 2: r += 'b'; break; case 3: { r += w.s1 } } return r"],
  ['getters-setters-static-private', "class K { static #c = 1; #p = w.s1; static s = K.#c + 1; get v() { return this.#p + K.#c } set v(x) { this.#p = x + w.s2 } static { K.t = K.s + w.s3 } #m() { return #p in this } has() { return this.#m() } static async *gen() { yield 1 } 'quoted key'() { return 1 } 42() { return 2 } [w.k1]() { return 3 } }; const k = new K(); k.v = 'n'; return [k.v, K.s, K.t, k.has(), k['quoted key'](), k[42](), typeof K.gen().next].join('|')"],
  ['class-extends-super-newtarget', "class A { constructor() { this.t = new.target.name } m() { return w.s1 } static sm() { return 's' } } class B extends A { m() { return super.m() + super.m().trim() + `${super.m()}` } static sm() { return super.sm() + w.s2 } } return new B().m() + new B().t + B.sm()"],
  ['object-literal-forms', "const k = 'dyn', sh = w.s1; const o = { sh, [k + 1]: 2, 'q-k': 3, 4: 5, get g() { return w.s2 }, set s(v) { this._s = v + w.s3 }, m() { return 1 }, async am() {}, *gm() {}, async *agm() {}, __proto__: { inherited: 1 }, ...{ sp: w.s4 } }; o.s = 'v'; return [o.sh, o.dyn1, o['q-k'], o[4], o.g, o._s, o.inherited, o.sp, Object.keys(o).join()].join('|')"],
  ['destructuring-forms', "const { a = w.s1, b: { c = a + w.s2 } = {}, ...rest } = { x: 1, y: 2 }; const [d, , e = c + w.s3, ...f] = [1, 2, undefined, 4, 5]; let g, h; [g, h = g + w.s4] = ['G']; ({ g, ...h } = { g: 1, z: 2 }); return [a, c, Object.keys(rest), d, e, f, g, Object.keys(h)].join('|')"],
  ['spread-rest-args', 'function f(a, b = a + w.s1, ...r) { return [a, b, r.length, arguments.length].join() } return f(1) + f(1, 2, ...[3, 4], 5) + [...w.s2].length + Math.max(...[1, 2], 3)'],
  ['arrow-forms', 'const a = x => x + w.s1, b = (x, y) => ({ x, y }), c = async x => await x + w.s2, d = () => () => w.s3 + 1, e = (x = w.s4 + 1) => x; return a(1) + b(1, 2).y + d()() + e() + typeof c'],
  ['generators-yield-star', "function* g() { const x = yield w.s1 + 1; yield* [x + w.s2, `${x}`]; return x } const it = g(); return [it.next().value, it.next('X').value, it.next().value, it.next().value, it.next().done].join('|')"],
  ['async-await-forms', "async function f() { const a = await w.s1 + 1; const b = await (w.s2 + 1); for await (const x of [Promise.resolve(w.s3)]) return a + b + x + (await null ?? 'n') } return f()", { asyncMain: true }],
  ['comma-void-typeof-delete', "const o = { a: 1 }; let r = (1, 2, w.s1) + typeof o.a + void 0 + delete o.a + ('a' in o) + typeof undeclared_zoo; return r"],
  ['comments-in-odd-places', 'return /* a */ w.s1 /* b */ + /* c */ w.f2( /* d */ ) // e\n  + w.s3 /* f\n multi */ .trim()'],
  ['html-comments-sloppy', 'let a = 1;\n<!-- html open comment\na = a + w.i1\n--> html close comment at line start\nreturn a + w.s1', { sloppy: true, script: true }],
  ['asi-hazards', "let a = w.s1\nlet b = a\n;[1].forEach(x => { a += x })\nlet c = a\n;(function () { b += w.s2 })()\nlet d = b\n++a\nlet e = `x`\n`y`.length\nreturn [a, b, c, d, e].join('|')".replace('let e = `x`\n`y`.length', "let e = 'x'\nvoid `y`.length")],
  ['keywords-as-names', "const o = { if: 1, class: 2, new: 3, default: w.s1, let: 4, await: 5, yield: 6, static: 7, get: 8, set: 9, async: 10, of: 11 }; var let_ = 1, async = 2, of = 3, get = 4, set = 5, static_ = 6; return o.if + o.class + o.new + o.default + o.let + o.await + o.yield + async + of + get + set", { sloppy: true }],
  ['unicode-identifiers', 'const ñ = w.s1, $ = w.s2, _ = 1, \\u0061b = 2, 𝒳 = 3, ℮ = 4; return ñ + $ + _ + ab + 𝒳 + ℮'],
  ['getter-on-proto-chain-call', "const base = { get m() { return function () { return w.s1 + this.tag } } }; const o = Object.create(base); o.tag = 't'; return o.m() + o.m().trim() + o['m']()"],
  ['this-binding-forms', "const o = { v: w.s1, m() { return this && this.v }, n: () => typeof this }; const f = o.m; return [o.m(), (o.m)(), (0, o.m)(), (o.m = o.m)(), f(), o.n()].map(String).join('|')", { sloppy: true }],
  ['tagged-template-this-and-cache', "const o = { t(s, ...v) { return (this === o) + s.raw.join('-') + v.join('+') } }; const id = s => s; const f = () => id`x`; return o.t`a${w.s1}b${1 + 2}c` + (f() === f())"],
  ['debugger-empty-statements', 'debugger;;; if (w.b1) ; else ; for (;;) { break } while (false); do ; while (false); return w.s1 + 1'],
  ['nested-template-and-regex-in-template', 'return `${/`/.source}${`${`${w.s1}`}`}${"`"}` + w.s2'],
  ['in-operator-in-for-init', "let r = ''; for (let i = ('a' in { a: 1 }) ? 0 : 1; i < 2; i++) r += i + w.s1; for (const k in { x: 1 }) r += k; for (const v of 'ab') r += v; return r"],
  ['exotic-calls', "return [new Date(0).getTime(), new (class { constructor() { this.x = w.s1 } })().x, new Function('return 1')(), (function () { return new.target })() === undefined, Reflect.apply(String.prototype.concat, w.s2, ['z'])].join('|')"],
  ['sequence-in-substitution', 'let n = 0; return `${n++, n++, n}${(n++, w.s1)}` + n'],
  ['directive-like-strings', "'not a directive'.length; return (function () { 'use strict'; 'second'; return this === undefined })() + w.s1"],
  ['import-meta-dynamic-import', 'const u = typeof import.meta.url; const lazy = () => import(`node:${"fs"}` + w.s2); return u + typeof lazy + w.s1', { module: true }],
  ['top-level-await-export-forms', 'export const a = await Promise.resolve(w.s1 + 1); export function f() { return a + w.s2 } export default class { m() { return f() } }; export { a as b, f as "string name" }', { module: true, raw: true }],
  // one expression with well over a hundred enclosing operations: long concatenations (generated HTML, SQL, templating code)
  // and long call chains are ordinary; every operand and every link must still be instrumented
  ['long-plus-chain-140', 'return ' + Array.from({ length: 140 }, (_, k) => k % 7 === 3 ? `'l${k}'` : k % 5 === 1 ? `w.f${k}()` : k % 11 === 6 ? `w.s${k}.trim()` : `w.s${k}`).join(' + ')],
  ['long-plus-chain-300-idents', 'const v = w.s1, u = w.s2; let acc = w.s3; acc += ' + Array.from({ length: 300 }, (_, k) => k % 2 ? 'v' : 'u').join(' + ') + '; return acc'],
  ['long-method-chain-135', 'return w.s1' + Array.from({ length: 135 }, (_, k) => k % 9 === 4 ? `.concat(w.s${k})` : k % 2 ? '.trim()' : '.toString()').join('')],
  ['long-nested-templates-40', 'return ' + Array.from({ length: 40 }, (_, k) => k).reduce((acc, k) => '`' + k + '${' + acc + '}${w.s' + k + '}`', 'w.s99')]
]

function build (entry) {
  const [name, body, o = {}] = entry
  let code
  if (o.raw) code = body + '\n'
  else if (o.script) code = `function main(w) {\n${body}\n}\nmain.call(w.t, w)\n`
  else code = `${o.module ? 'export default ' : ''}(${o.asyncMain ? 'async ' : ''}function main(w) {${o.sloppy || o.module ? '' : " 'use strict';"}\n${body}\n}).call(w.t, w)\n`
  return { code, meta: { kind: 'zoo', zoo: name, module: !!o.module, asyncMain: !!o.asyncMain, sigBase: 'zoo:' + name } }
}

module.exports = { ZOO, build }
