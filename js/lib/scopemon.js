'use strict'
// C06 structural monitor on the raw output AST: declaration/activation of every injected temporary,
// def-before-use inside injected sequences, no clobber of a temporary while a later read still needs it.
const { isObj } = require('./astmon')

const FUNC = new Set(['FunctionDeclaration', 'FunctionExpression', 'ArrowFunctionExpression'])

function analyze (ast, tempRe) {
  const problems = []
  // property names (a.NAME, {NAME: v}, class members, labels) are not variables
  ;(function mark (n, parent, key) {
    if (!isObj(n)) return
    if (Array.isArray(n)) { n.forEach(c => mark(c, parent, key)); return }
    if (!n.type) return
    if (n.type === 'Identifier' && parent) {
      if (parent.type === 'MemberExpression' && key === 'property' && !parent.computed) n.__propname = true
      if ((parent.type === 'Property' || parent.type === 'MethodDefinition' || parent.type === 'PropertyDefinition') && key === 'key' && !parent.computed && !parent.shorthand) n.__propname = true
      if ((parent.type === 'LabeledStatement' || parent.type === 'BreakStatement' || parent.type === 'ContinueStatement') && key === 'label') n.__propname = true
    }
    for (const k of Object.keys(n)) { if (k === 'type' || k === 'start' || k === 'end' || k === 'loc' || k.startsWith('__')) continue; const v = n[k]; if (isObj(v)) mark(v, n, k) }
  })(ast, null, null)
  const isTemp = n => n && n.type === 'Identifier' && !n.__propname && tempRe.test(n.name)
  const isInjectedLet = s => s.type === 'VariableDeclaration' && s.kind === 'let' && s.declarations.length > 0 && s.declarations.every(d => isTemp(d.id) && !d.init)
  let uses = 0
  let lets = 0
  let seqs = 0

  // --- 1. declaration and activation ---------------------------------------------------------------
  // stack frames: {node, kind:'block'|'function'|'field', declared:Set}
  function visit (n, stack, parent, key) {
    if (!isObj(n)) return
    if (Array.isArray(n)) { n.forEach(c => visit(c, stack, parent, key)); return }
    if (!n.type) return
    let pushed = 0
    if (n.type === 'Program' || n.type === 'BlockStatement' || n.type === 'StaticBlock') {
      const declared = new Set()
      for (const s of n.body) if (isInjectedLet(s)) { lets++; for (const d of s.declarations) { if (declared.has(d.id.name)) problems.push({ kind: 'temp-declared-twice-in-block', name: d.id.name }); declared.add(d.id.name) } }
      // a function body block belongs to the function frame pushed by its parent
      stack.push({ kind: 'block', declared, node: n, contexts: new Map() }); pushed++
    }
    if (isTemp(n) && !(parent && parent.type === 'VariableDeclarator' && key === 'id')) {
      uses++
      // resolve: nearest enclosing block declaring it; crossing a function/field boundary first is a different activation
      let crossed = null
      let found = false
      for (let i = stack.length - 1; i >= 0; i--) {
        const f = stack[i]
        if (f.kind === 'block') {
          if (f.declared.has(n.name)) {
            found = true
            // the activation context this use runs in: the declaring block's own statements, or the parameter list /
            // member initialisers of ONE nested function / class (evaluated in that function's activation)
            if (!f.contexts.has(n.name)) f.contexts.set(n.name, new Set())
            f.contexts.get(n.name).add(crossed ? crossed.owner : f.node)
            break
          }
        } else if (!crossed) crossed = f
      }
      if (!found) problems.push({ kind: 'temp-undeclared', name: n.name, at: n.start })
      else if (crossed) problems.push({ kind: 'temp-declared-in-other-activation', name: n.name, at: n.start, boundary: crossed.what })
    }
    for (const k of Object.keys(n)) {
      if (k === 'type' || k === 'start' || k === 'end' || k === 'loc' || k.startsWith('__')) continue
      const v = n[k]
      if (!isObj(v)) continue
      let extra = 0
      if (FUNC.has(n.type)) {
        // params and body are evaluated in the callee's activation; a block body declares its own temporaries
        if (k === 'params') { stack.push({ kind: 'function', what: 'function-parameters', owner: n }); extra++ } else if (k === 'body') {
          if (v.type === 'BlockStatement') { /* the body's own block frame resolves first; anything above it is outside */ stack.push({ kind: 'function', what: 'function-body', owner: n }); extra++ } else { stack.push({ kind: 'function', what: 'arrow-expression-body', owner: n }); extra++ }
        }
      } else if ((n.type === 'PropertyDefinition' || n.type === 'AccessorProperty') && k === 'value') { stack.push({ kind: 'field', what: 'class-field-initialiser', owner: parent }); extra++ }
      visit(v, stack, n, k)
      while (extra-- > 0) stack.pop()
    }
    while (pushed-- > 0) {
      const f = stack.pop()
      // one temporary, several activation contexts: a call made from one of them while the temporary is live in another
      // (e.g. a later parameter default that invokes a function created by an earlier one) overwrites it
      if (f.contexts) for (const [name, ctxs] of f.contexts) if (ctxs.size > 1) problems.push({ kind: 'temp-shared-between-activation-contexts', name, contexts: ctxs.size })
    }
  }
  visit(ast, [], null, null)

  // --- 2. sequences: def-before-use and no clobber while live ------------------------------------------
  function ownAssign (e) { return e.type === 'AssignmentExpression' && e.operator === '=' && isTemp(e.left) }
  function isInjectedSeq (n) {
    if (n.type !== 'SequenceExpression') return false
    let k = 0
    while (k < n.expressions.length - 1 && ownAssign(n.expressions[k])) k++
    return k >= 1 && k === n.expressions.length - 1
  }
  // collect reads / writes of temporaries in a subtree, not descending into nested functions that re-declare the name
  function collect (node, cb, shadow) {
    if (!isObj(node)) return
    if (Array.isArray(node)) { node.forEach(c => collect(c, cb, shadow)); return }
    if (!node.type) return
    let sh = shadow
    if (node.type === 'BlockStatement' || node.type === 'StaticBlock') {
      const d = new Set()
      for (const s of node.body) if (isInjectedLet(s)) for (const x of s.declarations) d.add(x.id.name)
      if (d.size) { sh = new Set(shadow); for (const x of d) sh.add(x) }
    }
    if (node.type === 'AssignmentExpression' && node.operator === '=' && isTemp(node.left)) { if (!sh.has(node.left.name)) cb('write', node.left.name, node); collect(node.right, cb, sh); return }
    if (isTemp(node)) { if (!sh.has(node.name)) cb('read', node.name, node); return }
    for (const k of Object.keys(node)) { if (k === 'type' || k === 'start' || k === 'end' || k === 'loc' || k.startsWith('__')) continue; const v = node[k]; if (isObj(v)) collect(v, cb, sh) }
  }
  function seqWalk (n) {
    if (!isObj(n)) return
    if (Array.isArray(n)) { n.forEach(seqWalk); return }
    if (!n.type) return
    if (isInjectedSeq(n)) {
      seqs++
      const ex = n.expressions
      const own = new Map() // name -> index of its (first) assignment in this sequence
      for (let i = 0; i < ex.length - 1; i++) if (!own.has(ex[i].left.name)) own.set(ex[i].left.name, i)
      // for every own temp: last direct read position (element index) in this sequence
      const lastRead = new Map()
      for (let j = 0; j < ex.length; j++) {
        const part = j < ex.length - 1 ? ex[j].right : ex[j]
        collect(part, (kind, name) => { if (kind === 'read' && own.has(name)) lastRead.set(name, j) }, new Set())
      }
      for (const [name, i] of own) {
        const lr = lastRead.has(name) ? lastRead.get(name) : i
        // a second write to `name` between its assignment (element i) and its last read (element lr)
        for (let j = i; j <= lr; j++) {
          const part = j < ex.length - 1 ? ex[j].right : ex[j]
          if (j === i) continue // the defining RHS is evaluated before the write
          collect(part, (kind, nm, node) => { if (kind === 'write' && nm === name) problems.push({ kind: 'temp-clobbered-while-live', name, at: node.start }) }, new Set())
          if (j < ex.length - 1 && j !== i && ex[j].left.name === name && j <= lr && j > i) problems.push({ kind: 'temp-clobbered-while-live', name, at: ex[j].start })
        }
      }
      // def-before-use of own reads: a read of an own temp in element j must come after its assignment (i < j, or j === last)
      for (let j = 0; j < ex.length - 1; j++) {
        collect(ex[j].right, (kind, name, node) => { if (kind === 'read' && own.has(name) && own.get(name) >= j) problems.push({ kind: 'temp-read-before-write', name, at: node.start }) }, new Set())
      }
    }
    for (const k of Object.keys(n)) { if (k === 'type' || k === 'start' || k === 'end' || k === 'loc' || k.startsWith('__')) continue; const v = n[k]; if (isObj(v)) seqWalk(v) }
  }
  seqWalk(ast)

  // --- 3. every read of a temporary is dominated by a write in an enclosing injected sequence / guard -----------
  function domWalk (n, env) {
    if (!isObj(n)) return
    if (Array.isArray(n)) { n.forEach(c => domWalk(c, env)); return }
    if (!n.type) return
    if (n.type === 'SequenceExpression') {
      let e2 = env
      for (const e of n.expressions) {
        domWalk(e, e2)
        if (ownAssign(e)) { e2 = new Set(e2); e2.add(e.left.name) }
      }
      return
    }
    if (n.type === 'AssignmentExpression' && n.operator === '=' && isTemp(n.left)) { domWalk(n.right, env); return }
    if (n.type === 'AssignmentExpression' && n.left.type === 'MemberExpression') {
      // `(t0 = O)[t1 = K] = RHS`: object and key of the target are evaluated (and their temporaries written) before RHS
      let e2 = env
      for (const part of [n.left.object, n.left.computed ? n.left.property : null]) {
        if (!part) continue
        domWalk(part, e2)
        if (ownAssign(part)) { e2 = new Set(e2); e2.add(part.left.name) }
      }
      domWalk(n.right, e2)
      return
    }
    if (isTemp(n)) { if (!env.has(n.name)) problems.push({ kind: 'temp-read-not-dominated-by-write', name: n.name, at: n.start }); return }
    if (n.type === 'VariableDeclaration' && isInjectedLet(n)) return
    if (FUNC.has(n.type) || n.type === 'PropertyDefinition' || n.type === 'StaticBlock') { for (const k of Object.keys(n)) { if (k === 'type' || k === 'start' || k === 'end' || k === 'loc' || k.startsWith('__')) continue; const v = n[k]; if (isObj(v)) domWalk(v, new Set()) } return }
    for (const k of Object.keys(n)) { if (k === 'type' || k === 'start' || k === 'end' || k === 'loc' || k.startsWith('__')) continue; const v = n[k]; if (isObj(v)) domWalk(v, env) }
  }
  domWalk(ast, new Set())
  return { problems, uses, lets, seqs }
}

module.exports = { analyze }
