'use strict'
// Differential executor: input vs rewritten output on identical worlds, clean and with injected faults.
const { run } = require('./world')

function firstDiff (a, b) {
  const n = Math.max(a.length, b.length)
  for (let i = 0; i < n; i++) if (a[i] !== b[i]) return i
  return -1
}

function compareRuns (a, b) {
  if (a.timedOut || b.timedOut) return { inconclusive: 'timeout' }
  const i = firstDiff(a.log, b.log)
  if (i >= 0) return { diff: { kind: 'effects', at: i, input: a.log[i], output: b.log[i], context: a.log.slice(Math.max(0, i - 3), i) } }
  if (a.completion !== b.completion) return { diff: { kind: 'completion', input: a.completion, output: b.completion } }
  return {}
}

// opts: module, faults: 'none' | 'all' | number (max sampled), hooks: ['identity','none','record'], rng
// returns {runs, events, divergences:[{hooks, faultAt, diff}], inconclusive:n, hookCalls}
async function differential (input, output, opts = {}) {
  const res = { runs: 0, events: 0, divergences: [], inconclusive: 0, hookCalls: 0, baseCompletion: null }
  const hooksList = opts.hooks || ['identity', 'none']
  const base = await run(input, { module: opts.module, filename: opts.filename })
  res.runs++
  res.events = base.log.length
  res.baseCompletion = base.completion
  if (base.timedOut) { res.inconclusive++; return res }
  const nEv = base.log.length
  let faultPoints = []
  const maxF = opts.faults === 'all' ? 64 : (typeof opts.faults === 'number' ? opts.faults : 0)
  if (maxF > 0) {
    if (nEv <= maxF) faultPoints = Array.from({ length: nEv }, (_, i) => i)
    else {
      const set = new Set([0, nEv - 1])
      const rng = opts.rng
      while (set.size < maxF) set.add(rng ? rng.int(nEv) : Math.floor(set.size * nEv / maxF))
      faultPoints = Array.from(set).sort((x, y) => x - y)
    }
  }
  const baseFault = new Map()
  for (const hooks of hooksList) {
    for (const k of [-1, ...faultPoints]) {
      let a
      if (k === -1) a = base
      else {
        if (!baseFault.has(k)) { baseFault.set(k, await run(input, { module: opts.module, faultAt: k, filename: opts.filename })); res.runs++ }
        a = baseFault.get(k)
      }
      const b = await run(output, { module: opts.module, faultAt: k, hooks, onHook: opts.onHook, filename: opts.filename })
      res.runs++
      res.hookCalls += b.hookCalls.length
      const c = compareRuns(a, b)
      if (c.inconclusive) { res.inconclusive++; continue }
      if (c.diff) {
        res.divergences.push({ hooks, faultAt: k, diff: c.diff })
        if (res.divergences.length >= 3) return res
        break // one divergence per hooks variant is enough
      }
    }
  }
  return res
}

module.exports = { differential, compareRuns, firstDiff }
