'use strict'
const U = require('./util')
// Independent literal extractor written from the statement of C14, on the acorn AST of the INPUT.
const A = require('./astmon')

const MIN = 10
const MAX = 256

function utf8len (s) {
  // cooked value may contain lone surrogates; Buffer would replace them (3 bytes each, same as WTF-8)
  return Buffer.byteLength(s, 'utf8')
}

// returns {entries:[{value,line,column,columnUtf16,ident,identLoose,astralBefore}], ambiguous:n}
function extract (code, opts = {}) {
  const ast = A.parse(code, { module: !!opts.module, preserveParens: true, locations: true })
  const lineStarts = U.lineStarts(code)
  const entries = []
  function visit (n, parent, key, ctx) {
    if (!A.isObj(n)) return
    if (Array.isArray(n)) { n.forEach(c => visit(c, parent, key, ctx)); return }
    if (!n.type) return
    // exclusions: require(<literal>, ...) and new RegExp(<literal>, ...)
    if (n.type === 'CallExpression' && n.callee.type === 'Identifier' && n.callee.name === 'require' && n.arguments.length > 0 && n.arguments[0].type === 'Literal') return
    if (n.type === 'NewExpression' && n.callee.type === 'Identifier' && n.callee.name === 'RegExp' && n.arguments.length > 0 && n.arguments[0].type === 'Literal') return
    if (n.type === 'Literal' && typeof n.value === 'string' && !n.regex) {
      const len = utf8len(n.value)
      if (len > MIN && len <= MAX) {
        const lineIdx = n.loc.start.line - 1
        const lineText = code.slice(lineStarts[lineIdx], n.start)
        const cp = Array.from(lineText).length
        let ident = null
        let loose = false
        if (parent && parent.type === 'VariableDeclarator' && key === 'init') { if (parent.id.type === 'Identifier') ident = parent.id.name }
        else if (parent && parent.type === 'Property' && key === 'value' && parent.kind === 'init' && !parent.method && !parent.shorthand && ctx.inObjectExpression) {
          if (!parent.computed && parent.key.type === 'Identifier') ident = parent.key.name
          else loose = true // string / numeric / computed keys: statement does not say
        } else if (parent && parent.type === 'PropertyDefinition' && key === 'value') loose = true
        else if (parent && parent.type === 'ImportAttribute') loose = true
        entries.push({ value: n.value, line: n.loc.start.line, column: lineText.length + 1, columnCodePoints: cp + 1, ident, identLoose: loose, start: n.start })
      }
      return
    }
    for (const k of Object.keys(n)) {
      if (k === 'type' || k === 'start' || k === 'end' || k === 'loc') continue
      const v = n[k]
      if (!A.isObj(v)) continue
      // not expression position: property / member keys (non-computed), import/export sources, class member keys
      if ((n.type === 'Property' || n.type === 'MethodDefinition' || n.type === 'PropertyDefinition' || n.type === 'AccessorProperty') && k === 'key' && !n.computed) continue
      if ((n.type === 'ImportDeclaration' || n.type === 'ExportNamedDeclaration' || n.type === 'ExportAllDeclaration') && k === 'source') continue
      if ((n.type === 'ImportDeclaration' || n.type === 'ExportNamedDeclaration' || n.type === 'ExportAllDeclaration') && k === 'attributes') continue
      if ((n.type === 'ImportSpecifier' || n.type === 'ExportSpecifier' || n.type === 'ExportAllDeclaration') && (k === 'imported' || k === 'exported' || k === 'local')) continue
      if (n.type === 'ImportExpression' && k === 'options') { visit(v, n, k, ctx); continue }
      let c2 = ctx
      if (n.type === 'ObjectExpression') c2 = { inObjectExpression: true }
      else if (n.type !== 'Property') c2 = { inObjectExpression: false }
      // a parenthesised literal is not "the" initialiser for the rewriter's name attribution: either accepted
      if (v.type === 'ParenthesizedExpression') { let inner = v; while (inner.type === 'ParenthesizedExpression') inner = inner.expression; if (inner.type === 'Literal') { visit(inner, { type: 'Paren' }, 'expression', c2); const e = entries[entries.length - 1]; if (e && e.start === inner.start) e.identLoose = true; continue } }
      visit(v, n, k, c2)
    }
  }
  visit(ast, null, null, { inObjectExpression: false })
  return { entries }
}

// flatten the rewriter's literalsResult
function flatten (lr) {
  const out = []
  const dupValues = []
  const seen = new Set()
  for (const l of lr.literals) {
    if (seen.has(l.value)) dupValues.push(l.value)
    seen.add(l.value)
    for (const loc of l.locations) out.push({ value: l.value, line: loc.line, column: loc.column, ident: loc.ident === undefined ? null : loc.ident })
  }
  return { entries: out, dupValues }
}

// compare; returns list of {kind, detail}
function compare (expected, reported, code) {
  const problems = []
  const key = e => e.line + ':' + e.column
  const expByPos = new Map()
  for (const e of expected.entries) expByPos.set(key(e), e)
  const matched = new Set()
  const seenRep = new Set()
  for (const r of reported.entries) {
    const k = key(r)
    if (seenRep.has(k + '\u0000' + r.value)) { problems.push({ kind: 'duplicate-occurrence', detail: `${JSON.stringify(r.value.slice(0, 30))} listed twice at ${k}` }); continue }
    seenRep.add(k + '\u0000' + r.value)
    let e = expByPos.get(k)
    // a leading BOM is not counted by the rewriter's column on line 1 (statement silent): accept column+1
    if ((!e || e.value !== r.value) && r.line === 1 && code.charCodeAt(0) === 0xFEFF) { const eb = expByPos.get(r.line + ':' + (r.column + 1)); if (eb && eb.value === r.value) e = eb }
    if (!e) {
      const same = expected.entries.find(x => x.value === r.value && !matched.has(x))
      if (same) problems.push({ kind: 'wrong-location', detail: `${JSON.stringify(r.value.slice(0, 30))} reported at ${k}, is at ${key(same)}` })
      else problems.push({ kind: 'unexpected-literal', detail: `${JSON.stringify(r.value.slice(0, 40))} (${utf8len(r.value)} bytes) reported at ${k}` })
      continue
    }
    if (e.value !== r.value) { problems.push({ kind: 'wrong-value-at-location', detail: `at ${k}: reported ${JSON.stringify(r.value.slice(0, 30))}, input has ${JSON.stringify(e.value.slice(0, 30))}` }); continue }
    matched.add(e)
    if (!e.identLoose && (e.ident || null) !== (r.ident || null)) problems.push({ kind: 'wrong-ident', detail: `${JSON.stringify(r.value.slice(0, 30))} at ${k}: ident ${r.ident}, expected ${e.ident}` })
    // the input text at the reported position must be a quote
    const lines = U.splitLines(code)
    const lineText = lines[r.line - 1] || ''
    const bomShift = (r.line === 1 && code.charCodeAt(0) === 0xFEFF) ? 1 : 0
    const ch = lineText[r.column - 1 + bomShift]
    const ch16 = lineText[r.column - 1]
    if (ch !== '"' && ch !== "'" && ch16 !== '"' && ch16 !== "'") problems.push({ kind: 'position-not-a-quote', detail: `${k} is ${JSON.stringify(ch)}` })
  }
  for (const e of expected.entries) if (!matched.has(e)) problems.push({ kind: 'missing-literal', detail: `${JSON.stringify(e.value.slice(0, 40))} (${utf8len(e.value)} bytes) at ${key(e)}${e.ident ? ' ident ' + e.ident : ''} not reported` })
  for (const v of reported.dupValues) problems.push({ kind: 'value-not-grouped', detail: JSON.stringify(v.slice(0, 30)) })
  return problems
}

module.exports = { extract, flatten, compare, utf8len }
