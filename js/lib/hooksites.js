'use strict'
// Structural part of C03 on the raw output AST: the argument list of every hook call must be, token for token,
// the operand list of its first argument in evaluation order, and every operand must be a single evaluation
// (identifier, temporary, literal, or spread of one).
const { litKey } = require('./astmon')

function simple (n) {
  if (!n) return false
  if (n.type === 'Identifier' || n.type === 'Literal' || n.type === 'ThisExpression') return true
  if (n.type === 'SpreadElement') return n.argument.type === 'Identifier' || n.argument.type === 'Literal' // a spread literal is copied like any literal
  if (n.type === 'TemplateLiteral' && n.expressions.length === 0) return true
  return false
}
function same (a, b) {
  if (!a || !b || a.type !== b.type) return false
  if (a.type === 'Identifier') return a.name === b.name
  if (a.type === 'Literal') return Object.is(litKey(a), litKey(b))
  if (a.type === 'ThisExpression') return true
  if (a.type === 'SpreadElement') return same(a.argument, b.argument)
  if (a.type === 'TemplateLiteral') return a.expressions.length === 0 && b.expressions.length === 0 && a.quasis[0].value.raw === b.quasis[0].value.raw
  return false
}
const isBarePlus = n => n && n.type === 'BinaryExpression' && n.operator === '+'

// returns [] or a list of {kind, detail}
function checkSite (call) {
  let e0 = call.arguments[0]
  const args = call.arguments.slice(1)
  const problems = []
  let expected = null
  if (!e0) return [{ kind: 'no-first-argument' }]
  if (e0.type === 'BinaryExpression' && e0.operator === '+') expected = [e0.left, e0.right]
  else if (e0.type === 'TemplateLiteral') expected = e0.expressions.slice()
  else if (e0.type === 'CallExpression') {
    const c = e0.callee
    // `...[x, y]` - the spread of an array literal without holes or inner spreads - passes exactly x, y
    const flat = (list) => list.flatMap(x => x && x.type === 'SpreadElement' && x.argument.type === 'ArrayExpression' && x.argument.elements.every(el => el && el.type !== 'SpreadElement') ? x.argument.elements : [x])
    e0 = Object.assign({}, e0, { arguments: flat(e0.arguments) })
    if (c.type === 'MemberExpression' && !c.computed && c.property.type === 'Identifier' && (c.property.name === 'call' || c.property.name === 'apply')) {
      const F = c.object
      if (c.property.name === 'call') expected = [F, ...e0.arguments]
      else {
        const a = e0.arguments
        if (a.length >= 2 && a[1].type === 'ArrayExpression') {
          // a hole is an undefined argument of the call: the hook must receive `undefined` in its place
          expected = [F, a[0], ...a[1].elements.map(x => x === null ? { type: 'Identifier', name: 'undefined', __hole: true } : x)]
        } else expected = [F, ...a]
      }
    } else if (c.type === 'Identifier') expected = [c, { type: 'Identifier', name: 'undefined' }, ...e0.arguments]
  }
  if (expected === null) return [{ kind: 'unknown-hook-shape', detail: e0.type }]
  // walk both lists
  let i = 0
  let j = 0
  while (i < expected.length || j < args.length) {
    const x = expected[i]
    const y = args[j]
    if (x && y && same(x, y)) {
      if (!simple(x)) problems.push({ kind: 'operand-not-single-evaluation', detail: x.type })
      i++; j++; continue
    }
    if (x && isBarePlus(x)) { problems.push({ kind: 'bare-plus-operand-omitted', detail: 'an un-instrumented + expression is used as operand but not passed to the hook' }); i++; continue }
    if (x && x.__hole) { problems.push({ kind: 'apply-hole', detail: 'the hole of the array literal passed to apply has no counterpart in the hook arguments' }); i++; continue }
    if (x && !y) { problems.push({ kind: 'operand-omitted', detail: x.type }); i++; continue }
    if (!x && y) { problems.push({ kind: 'extra-hook-argument', detail: y.type }); j++; continue }
    problems.push({ kind: 'operand-mismatch', detail: `position ${j}: operation uses ${x.type}${x.name ? ' ' + x.name : ''}, hook receives ${y.type}${y.name ? ' ' + y.name : ''}` })
    i++; j++
  }
  if (e0.type === 'BinaryExpression' && args.length !== 2 && !problems.length) problems.push({ kind: 'plus-arity', detail: String(args.length) })
  return problems
}

module.exports = { checkSite, simple, same }
