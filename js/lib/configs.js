'use strict'
// Rewriter configurations in the package's JS API shape (RewriterConfig of index.d.ts).
const STRING_METHODS = ['substring', 'trim', 'trimStart', 'trimEnd', 'concat', 'slice', 'replace', 'replaceAll', 'toUpperCase', 'toLowerCase', 'padStart', 'padEnd', 'repeat', 'substr', 'join', 'split', 'toString', 'at']
const PLUS = { src: 'plusOperator', operator: true }
const TPL = { src: 'tplOperator', operator: true }

function cfg (o = {}) {
  const c = { localVarPrefix: o.prefix === undefined ? 'test' : o.prefix }
  if (c.localVarPrefix === null) delete c.localVarPrefix
  const methods = []
  if (o.plus !== false) methods.push(Object.assign({}, PLUS, o.plusDst ? { dst: o.plusDst } : {}))
  if (o.tpl !== false) methods.push(Object.assign({}, TPL, o.tplDst ? { dst: o.tplDst } : {}))
  for (const m of (o.methods || STRING_METHODS)) {
    if (typeof m === 'string') methods.push({ src: m })
    else methods.push(m)
  }
  c.csiMethods = methods
  if (o.chain !== undefined) c.chainSourceMap = o.chain
  if (o.comments !== undefined) c.comments = o.comments
  if (o.literals !== undefined) c.literals = o.literals
  if (o.verbosity !== undefined) c.telemetryVerbosity = o.verbosity
  return c
}

const FULL = cfg({ methods: STRING_METHODS.concat([{ src: 'aloneMethod', allowedWithoutCallee: true }]), verbosity: 'DEBUG' })
// same coverage, every replacement renamed (dst != src), two sources sharing one dst
const RENAMED = cfg({
  plusDst: 'plus',
  tplDst: 'tpl',
  verbosity: 'DEBUG',
  methods: STRING_METHODS.map(m => ({ src: m, dst: /^trim/.test(m) ? 'stringTrim' : 'str_' + m })).concat([{ src: 'aloneMethod', dst: 'alone', allowedWithoutCallee: true }])
})

function dstMap (config) { // src -> dst for non-operators, plus operator names
  const m = { methods: new Map(), plus: null, tpl: null, bare: new Set(), all: new Set() }
  for (const x of config.csiMethods || []) {
    const dst = x.dst === undefined || x.dst === null ? x.src : x.dst
    m.all.add(dst)
    if (x.operator) {
      if (x.src === 'plusOperator' && m.plus === null) m.plus = dst
      if (x.src === 'tplOperator' && m.tpl === null) m.tpl = dst
    } else if (!m.methods.has(x.src)) {
      m.methods.set(x.src, dst)
      if (x.allowedWithoutCallee) m.bare.add(x.src)
    }
  }
  return m
}

module.exports = { cfg, FULL, RENAMED, STRING_METHODS, PLUS, TPL, dstMap }
