'use strict'
// E2.4: hostile inputs — token-level mutations of valid programs, random text, hostile file names,
// source-map references with every reader outcome (fault plan).

const DICT = ['(', ')', '{', '}', '[', ']', '`', '${', '}', '?.', '...', '=>', '+', '+=', '`${', '"', "'", '/', '/*', '*/', '//', '\\', '\\u{1F600}', '\\u{', '\uFEFF', '\u2028', '𝒳', 'é', '<!--', '-->', '#!', '@', '#x',
  'class', 'function', 'function*', 'async', 'await', 'yield', 'return', 'new', 'delete', 'typeof', 'super', 'this', 'import', 'export', 'default', 'let', 'const', 'var', 'if', 'else', 'for', 'of', 'in', 'while', 'do', 'switch', 'case', 'try', 'catch', 'finally', 'with', 'static', 'get', 'set',
  '//# sourceMappingURL=', '//# sourceMappingURL=x.map', '/*# sourceMappingURL=y.map */', '//# sourceMappingURL=data:application/json;base64,', '# sourceMappingURL=', '__datadog_test_0', '_ddiast', 'undefined', 'eval', 'arguments',
  '.trim()', '.concat(', '?.trim()', '.prototype.', '.call(', '.apply(', '0n', '1e400', '0x', '08', '.5', '/re/g', ';', ',', ':', '?', '??', '||=', '**', '<<', '\n', '\r\n', '\r', '\t', ' ']

function tokens (code) {
  const re = /\s+|[A-Za-z_$][\w$]*|\d[\w.]*|"(?:[^"\\\n]|\\.)*"|'(?:[^'\\\n]|\\.)*'|`|\$\{|\/\/[^\n]*|\/\*[\s\S]*?\*\/|=>|\?\.|\.\.\.|[+\-*/%&|^<>=!]=?|./gu
  return code.match(re) || []
}

function mutate (code, rng, n) {
  let toks = tokens(code)
  if (toks.length > 6000) { const start = rng.int(toks.length - 3000); toks = toks.slice(start, start + 3000) }
  const k = n || rng.range(1, 6)
  for (let i = 0; i < k; i++) {
    const at = rng.int(toks.length + 1)
    const op = rng.int(6)
    if (op === 0 && toks.length) toks.splice(Math.min(at, toks.length - 1), 1)
    else if (op === 1 && toks.length) toks.splice(at, 0, toks[Math.min(at, toks.length - 1)])
    else if (op === 2 && toks.length > 1) { const j = rng.int(toks.length); const a = Math.min(at, toks.length - 1); [toks[a], toks[j]] = [toks[j], toks[a]] } else if (op === 3) toks.splice(at, 0, rng.pick(DICT))
    else if (op === 4) toks.splice(at, 0, rng.pick(DICT), rng.pick(DICT))
    else if (toks.length) { const a = Math.min(at, toks.length - 1); toks.splice(a, rng.range(1, 8)) }
  }
  return toks.join('')
}

function randomText (rng) {
  const kind = rng.int(5)
  const len = rng.pick([0, 1, 2, 7, 40, 300, 3000])
  let s = ''
  if (kind === 0) for (let i = 0; i < len; i++) s += String.fromCharCode(32 + rng.int(95))
  else if (kind === 1) for (let i = 0; i < len; i++) s += String.fromCodePoint(rng.pick([rng.int(0x80), 0x80 + rng.int(0x700), 0x800 + rng.int(0xD000), 0x10000 + rng.int(0xFFFF)]))
  else if (kind === 2) for (let i = 0; i < len / 3; i++) s += rng.pick(DICT)
  else if (kind === 3) s = rng.pick(['', ' ', '\n', '\uFEFF', '#!', '#!/bin/sh', '\u2028', '0', ';', '{', '}', '`', '${', '/*', '//', '"', '\\'])
  else { s = 'x = ' + 'a + '.repeat(rng.pick([10, 200, 2000])) + 'b' }
  return s
}

function deepNesting (rng) { // bounded: nesting capped at 64 (exhaustion by nesting depth is out of scope)
  const d = rng.range(8, 64)
  const kind = rng.int(5)
  if (kind === 0) return 'function f(a){ return ' + '('.repeat(d) + 'a + 1' + ')'.repeat(d) + ' }'
  if (kind === 1) return 'function f(a){ return ' + 'a.trim('.repeat(d) + 'a' + ')'.repeat(d) + ' }'
  if (kind === 2) return 'function f(a){ ' + '{'.repeat(d) + ' a += `${a}` ' + '}'.repeat(d) + ' }'
  if (kind === 3) return 'function f(a){ return ' + '`${'.repeat(d) + 'a' + '}`'.repeat(d) + ' }'
  return 'function f(a){ return a' + '?.b'.repeat(d) + '?.trim() }'
}

const FILE_NAMES = ['', '/', '.', '..', 'x.js', './x.js', '../x.js', '/x.js', '//x.js', 'dir/', '/dir/sub/', '/a/b/../c.js', 'a\\b\\c.js', 'C:\\app\\x.js', '/app/ñandú/файл.js', '/app/😀.mjs', ' ', '\t', 'no-extension', '/app/' + 'long/'.repeat(400) + 'x.js', 'x'.repeat(5000) + '.js', '/app/a b c.js', '/app/x.js?query#hash', 'file:///app/x.js', '/app/.hidden', '/app/x.js/']

const VALID_MAP = JSON.stringify({ version: 3, sources: ['orig.ts'], names: ['n'], mappings: 'AAAAA;AACA;;AAEA,GAAG', sourceRoot: 'src' })
const INDEX_MAP = JSON.stringify({ version: 3, sections: [{ offset: { line: 0, column: 0 }, map: JSON.parse(VALID_MAP) }] })
const b64 = s => Buffer.from(s).toString('base64')

// pieces of hostile reference texts: incomplete / malformed percent escapes at every distance from the end, separators,
// data-URL fragments, blanks, quotes, non-ASCII, comment terminators
const URL_TOKENS = ['%', '%2', '%20', '%E2%82%AC', '%E2%82', '%zz', '%%', '/', '..', '.', 'x', 'a', '.map', '.js.map', '?', '#', ':', '//', 'data:', 'application/json', ';base64,', ';charset=utf-8', ',', ' ', '\t', 'é', '😀', '\\', '"', "'", '*', '\u2028', 'a'.repeat(300), 'eyJ2ZXJzaW9uIjozfQ==', '=', '+', '-', '_']

// well-formed maps of varied STRUCTURE (the chaining code walks them): several sources listed in another order than they are
// first used, repeated entries, sourcesContent with real text / nulls / too few entries, names, tokens without source or name,
// empty lines, a sourceRoot, a `file`, extension fields
function richMap (rng) {
  const S = require('./smap')
  const nS = rng.range(1, 5)
  const sources = Array.from({ length: nS }, (_, i) => rng.pick(['src/a', '../lib/b', 'c d', 'ñ/é', '😀']) + i + '.ts')
  if (rng.bool(0.3)) sources.splice(rng.int(nS), 0, rng.pick(sources))
  const names = Array.from({ length: rng.int(4) }, (_, i) => rng.pick(['n', 'value', 'ñ', '𝒳']) + i)
  const order = rng.shuffle(sources.map((_, i) => i)) // first use in another order than listed
  const tokens = []
  const lines = rng.range(1, 60)
  let k = 0
  for (let line = 0; line < lines; line++) {
    if (rng.bool(0.2)) continue
    for (let c = 0, n = rng.range(1, 5); c < n; c++) {
      const t = { genLine: line, genCol: c * rng.range(1, 9) + c }
      if (!rng.bool(0.08)) { t.src = k < order.length ? order[k++] : rng.int(sources.length); t.srcLine = rng.int(300); t.srcCol = rng.int(80); if (names.length && rng.bool(0.3)) t.name = rng.int(names.length) }
      tokens.push(t)
    }
  }
  const seen = new Set(); const uniq = tokens.filter(t => { const key = t.genLine + ':' + t.genCol; if (seen.has(key)) return false; seen.add(key); return true })
  const map = { version: 3, sources, names, mappings: S.encodeMappings(uniq) }
  if (rng.bool(0.5)) map.file = 'out.js'
  if (rng.bool(0.3)) map.sourceRoot = rng.pick(['', 'root/', '/abs'])
  const sc = rng.int(5)
  if (sc === 1) map.sourcesContent = sources.map(() => null)
  else if (sc === 2) map.sourcesContent = sources.map((x, i) => `// ${x}\nexport const v${i} = ${i}\n`)
  else if (sc === 3) map.sourcesContent = sources.map((x, i) => i % 2 ? null : 'content ' + i)
  else if (sc === 4) map.sourcesContent = ['only the first']
  if (rng.bool(0.2)) map.x_google_ignoreList = [0]
  return JSON.stringify(map)
}

// a source-map reference + the reader plan that decides what reading it yields
function mapReference (rng, file) {
  const r = rng.int(28)
  const dataUrl = (payload) => 'data:application/json;base64,' + payload
  const entry = rng.pick([
    { content: VALID_MAP }, { content: richMap(rng) }, { content: richMap(rng) }, { content: richMap(rng) }, { content: INDEX_MAP }, { content: '{"version":3' }, { content: '' }, { content: 'not json' }, { content: '{"version":3,"sources":[],"names":[],"mappings":"!!!"}' },
    { content: '{"version":3,"sources":["a"],"names":[],"mappings":"AAAA,' + 'gggggggggggggggggggggggg' + '"}' }, { content: '[]' }, { content: 'null' }, { content: '{"version":"x","mappings":7}' },
    { b64: Buffer.from([0xff, 0xfe, 0x00, 0x80]).toString('base64') }, { err: 'NotFound' }, { err: 'PermissionDenied' }, { err: 'IsADirectory' }, { err: 'Other' }, { err: 'Interrupted' },
    { content: VALID_MAP, fail_after: rng.int(VALID_MAP.length) }, { content: VALID_MAP, fail_after: 0 }, { size: rng.pick([100, 70000, 2000000]) }
  ])
  const parent = rng.pick(['node', 'node', 'std', 'none'])
  let url
  const files = {}
  if (r === 0) url = dataUrl(b64(VALID_MAP))
  else if (r >= 24) url = dataUrl(b64(richMap(rng)))
  else if (r === 1) url = dataUrl(b64(INDEX_MAP))
  else if (r === 2) url = dataUrl('!!!notbase64!!!')
  else if (r === 3) url = dataUrl(b64('{bad json'))
  else if (r === 4) url = dataUrl('')
  else if (r === 5) url = ''
  else if (r === 6) url = 'data:text/plain,hello'
  else if (r === 7) url = 'data:application/json;charset=utf-8;base64,' + b64(VALID_MAP)
  else if (r === 8) url = 'data:,'
  else if (r === 9) url = rng.bool(0.3) ? ' ' + rng.pick(DICT) + rng.pick(DICT) : Array.from({ length: rng.range(1, 6) }, () => rng.pick(URL_TOKENS)).join('')
  else if (r === 10) url = rng.pick(['http://example.com/x.js.map', 'dist/파일 v2', 'aé b', '🗺🗺.map \'the map\'', '€\u3000v2', 'ñ.js.map generated', 'x.map "q"', 'é', '  spaced.map  ', 'file:///abs/x.map', 'x.map?q=é#ü', '%E2%82%AC.map', 'my%20file.js.map', 'x.map%2', 'a%b', '100%', '%', 'a%2'])
  else if (r <= 16) { url = '/abs/maps/' + rng.pick(['x.js.map', 'ñ.map', 'dir/']); files[url] = entry } else {
    url = rng.pick(['x.js.map', './x.js.map', '../maps/x.js.map', 'sub/dir/x.map', '.', '..', 'x.js.map?v=1'])
    // register under every path the rewriter could resolve it to
    const dir = file.replace(/\/[^/]*$/, '')
    for (const base of [dir, dir + '/', file, '', '.', '/']) for (const sep of ['/', '']) files[(base + sep + url)] = entry
    files[url] = entry
  }
  const style = rng.int(6)
  let comment
  if (style === 0) comment = `\n//# sourceMappingURL=${url}`
  else if (style === 1) comment = `\n//# sourceMappingURL=${url}\n`
  else if (style === 2) comment = `\n/*# sourceMappingURL=${url} */`
  else if (style === 3) comment = `\n//# sourceMappingURL=other.map\n//# sourceMappingURL=${url}\n`
  else if (style === 4) comment = `\n//@ sourceMappingURL=${url}\n//#   sourceMappingURL=${url}  `
  else comment = `\n//# sourceMappingURL=${url}\nvar after = 1\n`
  return { comment, reader: { files, parent }, kind: { r, entry: Object.keys(entry).join('+') + (entry.err ? ':' + entry.err : ''), parent, style } }
}

module.exports = { mutate, randomText, deepNesting, mapReference, richMap, FILE_NAMES, DICT, VALID_MAP, INDEX_MAP, tokens }
