'use strict'
// E6: loads the repository's real main.js (+ js/source-map, js/stack-trace, unmodified) with the native
// module replaced by a shim that forwards synchronously to rwharness, and lru-cache (not installed, no
// node_modules can be fetched) replaced by a tiny LRU with the get/set API the package uses.
const Module = require('module')
const path = require('path')
const { spawnSync } = require('child_process')
const { binPath } = require('./rw')

class MiniLRU {
  constructor (o) { this.max = (o && o.max) || 1000; this.m = new Map() }
  get (k) { if (!this.m.has(k)) return undefined; const v = this.m.get(k); this.m.delete(k); this.m.set(k, v); return v }
  set (k, v) { this.m.delete(k); this.m.set(k, v); if (this.m.size > this.max) this.m.delete(this.m.keys().next().value) }
}

// state shared with the shim: virtual files for the source-map reader, call log
const state = { vfs: {}, calls: 0, lastRaw: null }

class ShimRewriter {
  constructor (config) { this.config = config }
  rewrite (code, file) {
    state.calls++
    const input = [JSON.stringify({ op: 'new', rw: 'r', config: this.config === undefined ? null : this.config }), JSON.stringify({ op: 'rewrite', rw: 'r', code, file, reader: { files: state.vfs, parent: 'node' } })].join('\n') + '\n'
    const r = spawnSync(binPath('release'), [], { input, maxBuffer: 1 << 28, timeout: 60000 })
    const lines = (r.stdout ? r.stdout.toString('utf8') : '').split('\n').filter(Boolean)
    if (lines.length < 2) throw new Error('native rewriter died: ' + (r.signal || r.status) + ' ' + String(r.stderr).slice(0, 200))
    const resp = JSON.parse(lines[1])
    if (resp.ok) { state.lastRaw = resp.ok.raw; return { content: resp.ok.content, metrics: resp.ok.metrics, literalsResult: resp.ok.literalsResult } }
    if (resp.err !== undefined) throw new Error(resp.err)
    throw new Error('native rewriter failure: ' + JSON.stringify(resp).slice(0, 300))
  }

  // what the native Rewriter#csiMethods answers: the replacement (dst) names of the configuration, from the real to_config
  csiMethods () {
    if (this._csi === undefined) {
      const input = JSON.stringify({ op: 'new', rw: 'r', config: this.config === undefined ? null : this.config }) + '\n'
      const r = spawnSync(binPath('release'), [], { input, maxBuffer: 1 << 24, timeout: 60000 })
      try { this._csi = JSON.parse((r.stdout ? r.stdout.toString('utf8') : '').split('\n')[0]).ok.csi || [] } catch (e) { this._csi = [] }
    }
    return this._csi.slice()
  }
  setLogger () {}
}

// returns a fresh instance of the package (fresh module-level caches)
function loadPackage () {
  const origLoad = Module._load
  const prefix = '/repo/'
  for (const k of Object.keys(require.cache)) if (k.startsWith(prefix)) delete require.cache[k]
  Module._load = function (request, parent, isMain) {
    const from = parent && parent.filename ? parent.filename : ''
    if (from.startsWith(prefix)) {
      if (request === './wasm/wasm_iast_rewriter') return { Rewriter: ShimRewriter }
      if (request === 'lru-cache') return MiniLRU
    }
    return origLoad.apply(this, arguments)
  }
  try { return require(path.join(prefix, 'main.js')) } finally { Module._load = origLoad }
}

// compile `content` under `filename` the way a module loader does, and run it; returns module.exports
function compileAs (content, filename) {
  const m = new Module(filename, null)
  m.filename = filename
  m.paths = []
  m._compile(content, filename)
  return m.exports
}

module.exports = { loadPackage, compileAs, state, MiniLRU, ShimRewriter }
