'use strict'
// Pairs statements of the raw output (positions intact) with the statements of the input they came from.
// Only statement-level injected shapes need to be known here: the prologue, the injected `let`, and the
// block created for an expression-bodied arrow. Used by the source-map monitor (C09) and the directive monitor (C07).
const { isObj, isPrologueIf } = require('./astmon')

const STMT = /(Statement|Declaration)$|^StaticBlock$/
const isStmt = n => n && typeof n.type === 'string' && STMT.test(n.type)

// immediate sub-units of a node, in source order: statements, and expression-bodied arrows (input side)
function units (node, self = true) {
  const out = []
  function w (n, top) {
    if (!isObj(n)) return
    if (Array.isArray(n)) { n.forEach(c => w(c, false)); return }
    if (!n.type) return
    if (!top && isStmt(n)) { out.push({ kind: 'stmt', node: n }); return }
    if (n.type === 'ArrowFunctionExpression' && n.body.type !== 'BlockStatement') { w(n.params, false); out.push({ kind: 'arrowExpr', node: n.body, arrow: n }); return }
    const kids = []
    for (const k of Object.keys(n)) {
      if (k === 'type' || k === 'start' || k === 'end' || k === 'loc' || k.startsWith('__')) continue
      const v = n[k]
      if (isObj(v)) kids.push(v)
    }
    const flat = []
    for (const v of kids) { if (Array.isArray(v)) for (const x of v) { if (isObj(x) && x.type) flat.push(x) } else if (v.type) flat.push(v) }
    flat.sort((a, b) => a.start - b.start)
    for (const c of flat) w(c, false)
  }
  w(node, true)
  return out
}

function makeAligner (tempRe) {
  const isInjectedLet = s => s.type === 'VariableDeclaration' && s.kind === 'let' && s.declarations.length > 0 && s.declarations.every(d => d.id.type === 'Identifier' && tempRe.test(d.id.name) && !d.init)

  // returns {pairs:[{in, out, inLines:[a,b]}], injected:[{node, kind, encl}], problems:[]}
  function align (inAst, outAst) {
    const res = { pairs: [], injected: [], problems: [] }
    function pairNode (i, o, enclIn) {
      // i, o: nodes whose sub-units are to be paired
      const ui = units(i)
      let uo = units(o)
      // strip statement-level injections on the output side
      const kept = []
      for (let k = 0; k < uo.length; k++) {
        const u = uo[k]
        if (u.kind === 'stmt' && o.type === 'Program' && isPrologueIf(u.node)) { res.injected.push({ node: u.node, kind: 'prologue', encl: enclIn }); if (kept.length && kept[kept.length - 1].node.type === 'EmptyStatement' && kept[kept.length - 1].node.end <= u.node.start && !kept[kept.length - 1].__fromInput) { const e = kept.pop(); res.injected.push({ node: e.node, kind: 'prologue', encl: enclIn }) } continue }
        if (u.kind === 'stmt' && (o.type === 'BlockStatement' || o.type === 'StaticBlock' || o.type === 'Program') && isInjectedLet(u.node)) { res.injected.push({ node: u.node, kind: 'let', encl: enclIn || i }); continue }
        kept.push(u)
      }
      uo = kept
      if (ui.length !== uo.length) { res.problems.push(`unit count ${ui.length} vs ${uo.length} under ${i.type}@${i.start}`); return }
      for (let k = 0; k < ui.length; k++) {
        const a = ui[k]; const b = uo[k]
        if (a.kind === 'arrowExpr') {
          // output: block { [let]; return E }
          if (b.kind !== 'stmt' || b.node.type !== 'BlockStatement') { res.problems.push(`arrow body mismatch @${a.node.start}`); continue }
          res.pairs.push({ in: a.node, out: b.node, arrowBody: true })
          const inner = b.node.body.filter(s => { if (isInjectedLet(s)) { res.injected.push({ node: s, kind: 'let', encl: a.node }); return false } return true })
          if (inner.length !== 1 || inner[0].type !== 'ReturnStatement') { res.problems.push(`arrow block shape @${a.node.start}`); continue }
          res.pairs.push({ in: a.node, out: inner[0], arrowBody: true })
          pairNode(a.node, inner[0].argument, a.node)
          // sub-units of the expression itself (pairNode treats its argument as a container)
          continue
        }
        if (b.kind !== 'stmt' || a.node.type !== b.node.type) { res.problems.push(`type ${a.node.type} vs ${b.node && b.node.type} @${a.node.start}`); continue }
        res.pairs.push({ in: a.node, out: b.node })
        pairNode(a.node, b.node, a.node)
      }
    }
    res.pairs.push({ in: inAst, out: outAst })
    pairNode(inAst, outAst, inAst)
    return res
  }
  return { align, isInjectedLet }
}

module.exports = { makeAligner, units, isStmt }
