'use strict'
// E2.2: grammar-directed random programs over the observable world, dense in instrumentable operations,
// with aliasing (operands reassigned by later operands), closures, recursion, generators and async.
// Known-defect shapes (DESIGN 7: D21...) are not generated here; they have dedicated witness programs.

const METHODS = ['trim', 'concat', 'substring', 'slice', 'replace', 'toUpperCase', 'padStart', 'repeat', 'trimEnd']
const UNLISTED = ['charAt', 'indexOf', 'startsWith', 'normalize']

class Gen {
  constructor (rng, opts = {}) {
    this.rng = rng
    this.n = 100
    this.opts = opts
    this.scopes = [[]] // arrays of {name, kind}
    this.fnNames = [] // {name, arity, kind}
    this.depthFn = 0
    this.stmts = 0
    this.maxStmts = opts.maxStmts || 30
    this.inGen = false
    this.inAsync = false
    this.lines = []
  }

  id () { return ++this.n }
  // an un-instrumented bare `+` operand is a recorded finding (7-D6): with plus disabled every sum is parenthesised
  P (e) { return this.opts.plusEnabled === false ? `(${e})` : e }
  locals (kind) { const out = []; for (const s of this.scopes) for (const l of s) if (!kind || l.kind === kind) out.push(l); return out }
  declare (kind) { const name = 'v' + this.id(); this.scopes[this.scopes.length - 1].push({ name, kind }); return name }

  atom () {
    const r = this.rng
    const strs = this.locals('str')
    return r.weighted([
      [strs.length ? 5 : 0, () => r.pick(strs).name],
      [3, () => `w.s${this.id()}`],
      [3, () => `w.f${this.id()}()`],
      [2, () => `'⟦L${this.id()}⟧'`],
      [1, () => String(r.int(9))],
      [1, () => `w.o${this.id()}.s${this.id()}`],
      [1, () => `w.o${this.id()}[w.k${this.id()}]`],
      [1, () => `\`t${this.id()}\``],
      [0.5, () => `w.n${this.id()}`],
      [0.5, () => `w.i${this.id()}`]
    ])()
  }

  // string-valued (or at least coercible) expression
  expr (d = 0) {
    const r = this.rng
    if (d >= (this.opts.maxDepth || 4)) return this.atom()
    const strs = this.locals('str')
    const objs = this.locals('obj')
    const sub = () => this.expr(d + 1)
    const inFn = (f) => { const g = this.inGen; const a = this.inAsync; this.inGen = false; this.inAsync = false; try { return f() } finally { this.inGen = g; this.inAsync = a } }
    return r.weighted([
      [4, () => this.atom()],
      [6, () => this.P(`${sub()} + ${sub()}`)],
      // objects with logged coercion only as direct operands of + (coerced after both operands are evaluated, in input and output alike)
      [1, () => this.P(r.bool() ? `w.o${this.id()} + ${sub()}` : `${sub()} + w.o${this.id()}`)],
      [2, () => this.P(`${sub()} + ${sub()} + ${sub()}`)],
      [1.5, () => this.P(`${sub()} + (${sub()} + ${sub()})`)],
      [4, () => this.tpl(d)],
      [6, () => this.methodCall(d)],
      [1.5, () => `(${sub()})`],
      [1.5, () => `(w.b${this.id()} ? ${sub()} : ${sub()})`],
      [1, () => `(w.n${this.id()} ?? ${sub()})`],
      [1, () => `(w.b${this.id()} && ${sub()})`],
      [strs.length ? 2.5 : 0, () => `(${r.pick(strs).name} = ${sub()})`], // aliasing: reassign an identifier operand
      [strs.length ? 2 : 0, () => `(${r.pick(strs).name} = w.s${this.id()}, ${sub()})`],
      [strs.length ? 2 : 0, () => `(${r.pick(strs).name} += ${sub()})`],
      [objs.length ? 1 : 0, () => `(${r.pick(objs).name}.p${r.int(3)} += ${sub()})`],
      [1, () => `(w.o${this.id()}.o2.p${r.int(3)} += ${sub()})`],
      [0.6, () => `(w.fobj${this.id()}()[w.k${this.id()}] += ${sub()})`],
      // operations inside the target of an assignment / update (object, computed key)
      // (`??=` / `||=` may yield the existing property, an object: keep that out of value position - see the template coercion-timing allowance)
      [0.8, () => { const op = r.pick(['+=', '+=', '=', '-=', '??=']); const e = `w.fobj${this.id()}(${sub()})[${sub()}] ${op} ${sub()}`; return op === '??=' ? `(${e}, w.s${this.id()})` : `(${e})` }],
      [objs.length ? 0.5 : 0, () => { const op = r.pick(['+=', '=', '||=']); const e = `${r.pick(objs).name}[${sub()}] ${op} ${sub()}`; return op === '||=' ? `(${e}, w.s${this.id()})` : `(${e})` }],
      [0.3, () => `(w.fobj${this.id()}()[${sub()}]++)`],
      [objs.length ? 1 : 0, () => `${r.pick(objs).name}.s${this.id()}`],
      [1, () => `(w.f${this.id()}(), ${sub()})`],
      [1.5, () => `(${sub()}, ${sub()})`], // comma sequences whose earlier expressions are instrumented too
      [strs.length ? 1 : 0, () => { const v = r.pick(strs).name; return `(${v} = ${sub()}, ${v})` }],
      [0.7, () => inFn(() => `w.cb${this.id()}(function (it, sep = ${sub()}) { return sep + it })`)],
      [1, () => `typeof ${this.atom()}`],
      [1.5, () => this.optional(d)],
      [1.5, () => this.protoCall(d)],
      [this.fnNames.length ? 3 : 0, () => this.userCall(d)],
      [1, () => inFn(() => `(() => ${sub()})()`)],
      [0.7, () => inFn(() => `(function () { return ${sub()} })()`)],
      [0.7, () => `w.id${this.id()}(${sub()})`],
      [0.7, () => inFn(() => `w.cb${this.id()}((x${this.id()}) => ${sub()})`)],
      [this.inGen ? 2 : 0, () => `(yield ${sub()})`],
      [this.inAsync ? 2 : 0, () => `(await ${sub()})`],
      [0.5, () => `aloneMethod(${sub()})`],
      [0.4, () => `aloneMethod(${this.atom()}, ${sub()}, ${sub()})`],
      [0.5, () => `[${sub()}, ${sub()}].join(${this.atom()})`],
      [0.5, () => `new w.C${this.id()}(${sub()}).s1`],
      [0.6, () => `w.tag${this.id()}\`a\${${sub()}}b\``],
      [0.6, () => `(w.u${this.id()} || ${sub()})`],
      [0.5, () => `${this.recvForReplace()}.replace(/⟦|x/g, ${sub()})`],
      [0.5, () => `[...[${sub()}, ${this.atom()}]].join(${this.atom()})`],
      [0.4, () => `(${this.atom()} in w.o${this.id()} ? ${sub()} : ${sub()})`],
      [0.4, () => this.P(`String(${sub()}).length + ${sub()}`)],
      [0.4, () => this.P(`(2 ** w.i${this.id()}) + ${sub()} + (w.i${this.id()} | 1)`)],
      [strs.length ? 0.8 : 0, () => `(${r.pick(strs).name} ${r.pick(['||=', '??=', '&&='])} ${sub()})`],
      [0.5, () => inFn(() => `(function () { return arguments[0] + arguments.length })(${sub()}, 1)`)],
      [0.5, () => inFn(() => `(({ k${this.id()} = ${sub()} }) => k${this.n})({})`)]
    ])()
  }

  tpl (d) {
    const r = this.rng
    const k = r.range(1, 3)
    let s = '`' + (r.bool() ? 'q' + this.id() : '')
    let sawObj = false
    for (let i = 0; i < k; i++) {
      // carve-out (iii): once an object with logged coercion is substituted, later substitutions are effect-free
      let e
      if (sawObj) e = r.bool() ? `'⟦L${this.id()}⟧' + 'x'` : String(r.int(9)) + ' * 2'
      else if (r.bool(0.1)) { e = `w.o${this.id()}`; sawObj = true } else if (r.bool(0.08)) { e = `${this.expr(d + 2)}, ${this.expr(d + 2)}` } else e = this.expr(d + 1) // a bare comma sequence is legal in a substitution
      if (/^'[^']*' \+ 'x'$/.test(e)) e = `(${this.locals('str').length ? this.rng.pick(this.locals('str')).name : 1})`
      s += '${' + e + '}' + (r.bool() ? '·' : '')
    }
    return s + '`'
  }

  recvForReplace () { const strs = this.locals('str'); return strs.length ? this.rng.pick(strs).name : `w.s${this.id()}` }

  recv (d) {
    const r = this.rng
    const strs = this.locals('str')
    return r.weighted([
      [strs.length ? 5 : 0, () => r.pick(strs).name],
      [2, () => `w.f${this.id()}()`],
      [2, () => `w.o${this.id()}.s${this.id()}`],
      [1.5, () => `(${this.expr(d + 1)})`],
      [1, () => `w.o${this.id()}`], // proxy receiver: method lookup and call are logged
      [0.4, () => `w.n${this.id()}`], // throws TypeError in both
      [1, () => `'⟦L${this.id()}⟧'`]
    ])()
  }

  args (d, max = 3) {
    const r = this.rng
    const n = r.int(max + 1)
    const out = []
    for (let i = 0; i < n; i++) {
      out.push(r.weighted([
        [5, () => this.expr(d + 1)],
        [1, () => `...w.it${this.id()}`],
        [1, () => `...w.arr${this.id()}`],
        [1, () => String(r.int(5))]
      ])())
    }
    return out.join(', ')
  }

  methodCall (d) {
    const r = this.rng
    const m = r.bool(0.85) ? r.pick(METHODS) : r.pick(UNLISTED)
    let a
    if (m === 'substring' || m === 'slice') a = `${r.int(4)}${r.bool() ? ', ' + (4 + r.int(20)) : ''}`
    else if (m === 'repeat') a = String(r.int(3))
    else if (m === 'padStart') a = `${10 + r.int(30)}, ${this.expr(d + 1)}`
    else if (m === 'replace') a = `${this.atom()}, ${this.expr(d + 1)}`
    else if (m === 'concat') a = this.args(d)
    else if (m === 'charAt' || m === 'indexOf' || m === 'startsWith') a = this.atom()
    else a = ''
    let call = `${this.recv(d)}.${m}(${a})`
    if (r.bool(0.25)) call += `.${r.pick(METHODS.filter(x => !['replace', 'padStart', 'repeat', 'substring', 'slice'].includes(x)))}(${r.bool() ? this.atom() : ''})`
    return call
  }

  optional (d) {
    const r = this.rng
    const strs = this.locals('str')
    const base = r.weighted([
      [strs.length ? 3 : 0, () => r.pick(strs).name],
      [2, () => `w.n${this.id()}`],
      [2, () => `w.u${this.id()}`],
      [2, () => `w.s${this.id()}`]
    ])()
    const simpleArg = () => r.pick([`w.s${this.id()}`, `'⟦L${this.id()}⟧'`, strs.length ? r.pick(strs).name : '1'])
    return r.weighted([
      [3, () => `${base}?.trim()`],
      [2, () => `${base}?.concat(${simpleArg()}, ${simpleArg()})`],
      [2, () => `${base}?.trim().length`],
      [1, () => `w.o${this.id()}?.s${this.id()}.trim()`],
      [1, () => `${base}?.charAt(0)`],
      [1, () => `w.o${this.id()}.${r.bool() ? 'f1' : 'u1'}?.(${simpleArg()}).trim()`],
      [0.6, () => `w.o${this.id()}.${r.pick(['s1', 'i1', 'f1'])}?.(w.f${this.id()}(), ...w.it${this.id()}).trim()`],
      // chains nested in the arguments, computed keys and callbacks of a chain
      [d > 0 ? 1.2 : 0, () => `${base}?.concat(${this.optional(d - 1)}, ${simpleArg()})`],
      [d > 0 ? 0.8 : 0, () => `w.o${this.id()}?.s${this.id()}.trim().concat(w.cb${this.id()}((x) => ${this.optional(d - 1)}))`],
      [d > 0 ? 0.6 : 0, () => `w.id${this.id()}(${this.optional(d - 1)})?.trim()`],
      [d > 0 ? 0.5 : 0, () => `w.o${this.id()}?.[${this.optional(d - 1)} ?? 's1'].trim()`]
    ])()
  }

  protoCall (d) {
    const r = this.rng
    const strs = this.locals('str')
    const th = strs.length && r.bool(0.7) ? r.pick(strs).name : `w.f${this.id()}()`
    return r.weighted([
      [2, () => `String.prototype.trim.call(${th})`],
      [2, () => `String.prototype.concat.call(${th}, ${this.args(d, 2) || "'x'"})`],
      [2, () => `String.prototype.concat.apply(${th}, [${this.expr(d + 1)}, ${this.atom()}])`],
      [1, () => `String.prototype.slice.apply(${th}, [1])`]
    ])()
  }

  userCall (d) {
    const f = this.rng.pick(this.fnNames)
    const a = []
    for (let i = 0; i < f.arity; i++) a.push(this.expr(d + 1))
    if (f.kind === 'gen') return `[...${f.name}(${a.join(', ')})].join('|')`
    return `${f.name}(${a.join(', ')})`
  }

  emit (indent, s) { this.lines.push('  '.repeat(indent) + s) }

  block (indent, n, extra) {
    this.scopes.push([])
    for (let i = 0; i < n && this.stmts < this.maxStmts; i++) this.stmt(indent)
    if (extra) extra()
    this.scopes.pop()
  }

  stmt (indent) {
    const r = this.rng
    this.stmts++
    const strs = this.locals('str')
    const multi = (e) => r.bool(0.25) ? e.replace(/ \+ /, '\n' + '  '.repeat(indent + 2) + '+ ') : e
    r.weighted([
      [6, () => { const e = multi(this.expr()); const v = this.declare('str'); this.emit(indent, `${r.bool() ? 'let' : 'let'} ${v} = ${e}${r.bool(0.8) ? ';' : ''}`) }],
      [1, () => { const v = this.declare('obj'); this.emit(indent, `const ${v} = w.o${this.id()};`) }],
      [5, () => this.emit(indent, `w.out(${multi(this.expr())});`)],
      [strs.length ? 3 : 0, () => this.emit(indent, `${r.pick(strs).name} += ${this.expr()};`)],
      [strs.length ? 1 : 0, () => this.emit(indent, `${r.pick(strs).name} = ${this.expr()};`)],
      [2, () => { // if / else, braced or not
        const braced = r.bool(0.6)
        if (braced) {
          this.emit(indent, `if (${this.expr(2)}) {`); this.block(indent + 1, r.range(1, 2)); this.emit(indent, r.bool() ? '} else {' : '}')
          if (this.lines[this.lines.length - 1].endsWith('else {')) { this.block(indent + 1, 1); this.emit(indent, '}') }
        } else {
          this.emit(indent, `if (${this.expr(2)}) w.out(${this.expr(2)});`)
          if (r.bool()) this.emit(indent, `else if (${this.expr(3)}) w.out(${this.expr(2)});`)
          if (r.bool()) this.emit(indent, `else w.out(${this.expr(2)});`)
        }
      }],
      [1.5, () => { const i = 'i' + this.id(); this.emit(indent, `for (let ${i} = 0; ${i} < 2; ${i}++) {`); this.block(indent + 1, r.range(1, 2)); this.emit(indent, '}') }],
      [0.7, () => { const i = 'i' + this.id(); this.emit(indent, `for (let ${i} = 0; ${i} < 2; ${i}++) w.out(${this.expr(2)});`) }],
      [0.7, () => { const x = 'x' + this.id(); this.emit(indent, `for (const ${x} of [${this.expr(2)}, ${this.atom()}]) {`); this.scopes.push([{ name: x, kind: 'str' }]); this.block(indent + 1, 1); this.scopes.pop(); this.emit(indent, '}') }],
      [0.7, () => { const c = 'c' + this.id(); this.emit(indent, `let ${c} = 0; while (${c}++ < 2 && (${this.expr(2)})) {`); this.block(indent + 1, 1); this.emit(indent, '}') }],
      [1, () => { this.emit(indent, 'try {'); this.block(indent + 1, r.range(1, 2), () => { if (r.bool(0.4)) this.emit(indent + 1, `w.fthrow${this.id()}();`) }); this.emit(indent, `} catch (e${this.id()}) {`); this.block(indent + 1, 1); if (r.bool()) { this.emit(indent, '} finally {'); this.block(indent + 1, 1) } this.emit(indent, '}') }],
      [0.8, () => { this.emit(indent, `switch (${this.expr(2)}) {`); this.emit(indent + 1, `case ${this.expr(2)}: w.out(${this.expr(2)}); break;`); this.emit(indent + 1, `default: { w.out(${this.expr(2)}) }`); this.emit(indent, '}') }],
      [this.depthFn < 2 && this.fnNames.length < 4 ? 2.5 : 0, () => this.fnDecl(indent)],
      [0.6, () => { this.emit(indent, `lbl${this.id()}: {`); this.block(indent + 1, 1); this.emit(indent, '}') }],
      [0.6, () => { // closures created in a loop, invoked later
        const fs = 'fs' + this.id(); const i = 'i' + this.id()
        const g0 = this.inGen; const a0 = this.inAsync; this.inGen = false; this.inAsync = false
        this.emit(indent, `const ${fs} = []; for (let ${i} = 0; ${i} < 2; ${i}++) ${fs}.push(() => ${this.expr(2)} + ${i});`)
        this.inGen = g0; this.inAsync = a0
        this.emit(indent, `for (const f of ${fs}.reverse()) w.out(f());`)
      }],
      [0.6, () => { // accessor object: getter/setter bodies are instrumented blocks of their own
        const ob = 'ob' + this.id(); const g0 = this.inGen; const a0 = this.inAsync; this.inGen = false; this.inAsync = false
        this.emit(indent, `const ${ob} = { get p() { return ${this.expr(2)} }, set p(v) { w.out(v + ${this.expr(2)}) }, m(x) { return this.p + x } };`)
        this.inGen = g0; this.inAsync = a0
        this.emit(indent, `${ob}.p = ${this.expr(2)}; w.out(${ob}.m(${this.atom()}));`)
      }],
      [0.6, () => { // inheritance with super calls through instrumented methods
        const A1 = 'A' + this.id(); const B1 = 'B' + this.id(); const g0 = this.inGen; const a0 = this.inAsync; this.inGen = false; this.inAsync = false
        this.emit(indent, `class ${A1} { constructor(v) { this.v = v + ${this.expr(2)} } m(p) { return this.v + p } static make(x) { return new this(x) } }`)
        this.emit(indent, `class ${B1} extends ${A1} { constructor(v) { super(v + ${this.atom()}); this.w2 = \`\${v}\` } m(p) { return super.m(p) + ${this.expr(2)} + this.w2 } }`)
        this.inGen = g0; this.inAsync = a0
        this.emit(indent, `w.out(${B1}.make(${this.expr(2)}).m(${this.atom()}));`)
      }],
      [0.6, () => { const a = 'd' + this.id(); const b = 'd' + this.id(); this.emit(indent, `const { ${a} = ${this.expr(2)}, q: [${b} = ${this.expr(2)}] = [] } = w.o${this.id()}.u1 ?? {};`); this.scopes[this.scopes.length - 1].push({ name: a, kind: 'str' }, { name: b, kind: 'str' }) }],
      [0.6, () => { const c = 'c' + this.id(); this.emit(indent, `let ${c} = 0; do { w.out(${this.expr(2)}); if (${c} > 0) continue } while (${c}++ < 1)`) }],
      [0.5, () => { const i = 'i' + this.id(); const l = 'lp' + this.id(); this.emit(indent, `${l}: for (let ${i} = 0; ${i} < 3; ${i}++) { if (${i} === 1) continue ${l}; w.out(${this.expr(2)} + ${i}); if (${i} === 2) break ${l} }`) }],
      [0.5, () => { this.emit(indent, `switch (w.i${this.id()}) { case 0: w.out(${this.expr(2)}); case 1: w.out(${this.expr(2)}); break; case 2: { w.out(${this.expr(2)}) } default: w.out(${this.atom()}) }`) }],
      [0.5, () => { const k = 'k' + this.id(); this.emit(indent, `for (const ${k} in { a: 1, b: 2 }) w.out(${k} + ${this.expr(2)});`) }],
      [0.5, () => { this.emit(indent, `try { w.out(${this.expr(2)}); w.fthrow${this.id()}() } catch { w.out(${this.expr(2)}) }`) }],
      [0.5, () => { const k = 'K' + this.id(); const g0 = this.inGen; const a0 = this.inAsync; this.inGen = false; this.inAsync = false; this.emit(indent, `class ${k} { m(p) { return ${this.expr(2)} + p } static sm() { return ${this.expr(2)} } }`); this.inGen = g0; this.inAsync = a0; this.emit(indent, `w.out(new ${k}().m(${this.atom()}) + ${k}.sm());`) }]
    ])()
  }

  fnDecl (indent) {
    const r = this.rng
    const name = 'fn' + this.id()
    const arity = r.int(3)
    const kind = r.weighted([[5, 'plain'], [1.5, 'gen'], [1, 'rec']])
    const params = []
    this.scopes.push([])
    for (let i = 0; i < arity; i++) { const p = 'p' + this.id(); params.push(p); this.scopes[this.scopes.length - 1].push({ name: p, kind: 'str' }) }
    const strictFn = kind !== 'rec' && r.bool(0.15)
    this.depthFn++
    const savedGen = this.inGen
    const savedAsync = this.inAsync
    this.inGen = kind === 'gen'
    this.inAsync = false
    this.emit(indent, `function${kind === 'gen' ? '*' : ''} ${name}(${params.join(', ')}${kind === 'rec' ? (params.length ? ', ' : '') + 'depth = 0' : ''}) {`)
    if (strictFn) this.emit(indent + 1, "'use strict';")
    const savedFns = this.fnNames
    this.fnNames = this.fnNames.slice() // functions declared so far are callable
    if (kind === 'rec') {
      // recursion through an instrumented statement: a temporary is live across the recursive call
      this.emit(indent + 1, `if (depth < 2) { return ${this.atom()} + ${name}(${params.map(() => this.atom()).concat(['depth + 1']).join(', ')}) + ${this.atom()} }`)
    }
    const n = r.range(1, 3)
    for (let i = 0; i < n && this.stmts < this.maxStmts; i++) this.stmt(indent + 1)
    if (kind === 'gen') { this.emit(indent + 1, `yield ${this.expr(2)};`); if (r.bool()) this.emit(indent + 1, `yield ${this.expr(2)};`) } else this.emit(indent + 1, `return ${this.expr(1)};`)
    this.emit(indent, '}')
    this.inGen = savedGen
    this.inAsync = savedAsync
    this.depthFn--
    this.scopes.pop()
    this.fnNames = savedFns
    this.fnNames.push({ name, arity, kind })
  }
}

function genProgram (rng, opts = {}) {
  const g = new Gen(rng, opts)
  const strict = !!opts.strict
  const asyncMain = !!opts.asyncMain
  g.inAsync = asyncMain
  g.emit(0, `${opts.module ? 'export default ' : ''}(${asyncMain ? 'async ' : ''}function main(w) {${strict ? " 'use strict';" : ''}`)
  g.emit(1, 'function aloneMethod(x, y, z) { return w.id9(x, y, z) }')
  const nLocals = rng.range(1, 3)
  for (let i = 0; i < nLocals; i++) { const v = g.declare('str'); g.emit(1, `let ${v} = w.s${g.id()};`) }
  const n = rng.range(3, opts.topStmts || 8)
  for (let i = 0; i < n && g.stmts < g.maxStmts; i++) g.stmt(1)
  g.emit(1, `return ${g.expr(1)};`)
  g.emit(0, '}).call(w.t, w)')
  let code = g.lines.join('\n') + '\n'
  return { code, meta: { kind: 'random', strict, module: !!opts.module, asyncMain } }
}

module.exports = { genProgram, METHODS, UNLISTED }
