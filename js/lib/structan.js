'use strict'
// Structural analysis of one (input, response) pair: erase + align + policy/hook attribution.
const A = require('./astmon')
const P = require('./policy')
const { kind } = require('./pipeline')

function analyze (job, resp, prefix) {
  const k = kind(resp)
  const out = { status: k }
  if (k !== 'ok-modified' && k !== 'ok-notmodified') return out
  const isMod = !!(job.meta && job.meta.module)
  let a
  try { a = A.parse(job.code, { module: isMod, preserveParens: true }) } catch (e) {
    const p = A.parseAuto(job.code, { preserveParens: true })
    if (p.error) { out.status = 'input-unparsable-by-acorn'; return out }
    a = p.ast
  }
  const pol = P.annotate(a, job.config)
  out.required = pol.required.length
  out.dm = pol.dm
  if (k === 'ok-notmodified') {
    out.notmodified = true
    out.requiredNodes = pol.required
    return out
  }
  const outCode = resp.ok.raw.code
  let b
  try { b = A.parse(outCode, { module: a.sourceType === 'module' }) } catch (e) { out.status = 'output-unparsable'; out.detail = e.message; return out }
  // census on the raw output (before erasure), prologue removed
  const rawCensus = A.census(b)
  out.hookSites = rawCensus.sites.map(s => s.name)
  out.rawSites = rawCensus.sites
  out.otherDdiastRefs = rawCensus.otherRefs
  out.prologuePresent = b.body.some(A.isPrologueIf)
  const E = A.makeEraser(prefix)
  b = E.erase(b)
  out.dup = A.foldDuplicatedTargets(b)
  a = A.normalize(a); b = A.normalize(b)
  out.stats = E.stats
  const diffs = []
  A.eq(a, b, '', diffs)
  out.leftovers = E.leftovers(b)
  out.diffs = diffs
  out.aligned = diffs.length === 0 && out.leftovers.length === 0
  out.a = a
  out.b = b
  if (!out.aligned) return out
  // attribution
  const missed = []
  const wrongName = []
  const notEnabled = []
  const byTag = Object.create(null)
  let hooked = 0
  P.pairs(a, b, (x, y) => {
    if (y.__hook) {
      hooked++
      const op = P.opOf(x)
      const name = y.__hook.name
      let expected = null
      let tag = null
      if (op) {
        tag = op.tag
        if (op.op === 'plus') expected = pol.dm.plus
        else if (op.op === 'tpl') expected = pol.dm.tpl
        else if (op.op === 'method') {
          expected = pol.dm.methods.has(op.method) ? pol.dm.methods.get(op.method) : null
          if (op.bare && !pol.dm.bare.has(op.method)) expected = null
        }
      }
      byTag[tag === null ? '?' : tag] = (byTag[tag === null ? '?' : tag] || 0) + 1
      if (expected === null) notEnabled.push({ node: x, name, op })
      else if (expected !== name) wrongName.push({ node: x, name, expected, op })
    } else if (x.__req) {
      missed.push({ node: x, req: x.__req })
    }
  })
  out.hooked = hooked
  out.byTag = byTag
  out.missed = missed
  out.wrongName = wrongName
  out.notEnabled = notEnabled
  return out
}

module.exports = { analyze }
