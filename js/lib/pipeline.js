'use strict'
// Shared plumbing: rewrite a list of jobs ({code, file, config, cfgKey, reader}) in one harness batch.
const { Harness } = require('./rw')

function rewriteJobs (jobs, harnessOpts) {
  const h = new Harness(harnessOpts)
  const reqs = []
  const cfgIds = new Map()
  const idx = []
  for (const j of jobs) {
    const key = j.cfgKey || JSON.stringify(j.config)
    if (!cfgIds.has(key)) {
      cfgIds.set(key, 'c' + cfgIds.size)
      reqs.push(j.configText !== undefined ? { op: 'new', rw: cfgIds.get(key), config_text: j.configText } : { op: 'new', rw: cfgIds.get(key), config: j.config })
    }
    idx.push(reqs.length)
    reqs.push({ op: 'rewrite', rw: cfgIds.get(key), code: j.code, file: j.file || '/app/src/prog.js', reader: j.reader })
  }
  const rs = h.run(reqs)
  const prefixes = new Map()
  reqs.forEach((q, i) => { if (q.op === 'new' && rs[i] && rs[i].ok) prefixes.set(q.rw, rs[i].ok.prefix) })
  return { responses: idx.map(i => rs[i]), prefixes: idx.map(i => prefixes.get(reqs[i].rw)), harness: h, all: rs, reqs }
}

// classify a response: 'ok-modified' | 'ok-notmodified' | 'err' | 'panic' | 'abort' | 'timeout' | 'harness'
function kind (r) {
  if (!r) return 'harness'
  if (r.ok) return r.ok.metrics && r.ok.metrics.status === 'modified' ? 'ok-modified' : 'ok-notmodified'
  if (r.err !== undefined) return 'err'
  if (r.panic) return 'panic'
  if (r.abort) return 'abort'
  if (r.timeout) return 'timeout'
  return 'harness'
}

module.exports = { rewriteJobs, kind }
