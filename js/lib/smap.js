'use strict'
// E5: independent source-map tooling: base64 VLQ decoding, trailer extraction, lookups, composition helpers.
const B64 = 'ABCDEFGHIJKLMNOPQRSTUVWXYZabcdefghijklmnopqrstuvwxyz0123456789+/'
const B64MAP = new Map(Array.from(B64).map((c, i) => [c, i]))

const TRAILER = '//# sourceMappingURL=data:application/json;base64,'

// returns {code, mapText, map, error}; requires exactly one trailer, as the last line
function splitTrailer (content) {
  const idx = content.lastIndexOf('\n' + TRAILER)
  if (idx < 0) return { error: 'no inline sourceMappingURL trailer' }
  const tail = content.slice(idx + 1 + TRAILER.length)
  if (/[\n\r]/.test(tail.replace(/\n$/, ''))) return { error: 'trailer is not the last line' }
  const b64 = tail.replace(/\n$/, '')
  if (!/^[A-Za-z0-9+/]*={0,2}$/.test(b64)) return { error: 'trailer payload is not base64' }
  let mapText
  try { mapText = Buffer.from(b64, 'base64').toString('utf8') } catch (e) { return { error: 'base64 decode failed' } }
  let map
  try { map = JSON.parse(mapText) } catch (e) { return { error: 'trailer does not decode to JSON: ' + e.message } }
  const code = content.slice(0, idx)
  return { code, mapText, map }
}

function decodeVlqSegment (seg) {
  const out = []
  let shift = 0
  let value = 0
  for (const ch of seg) {
    const d = B64MAP.get(ch)
    if (d === undefined) throw new Error('invalid base64 digit in mappings: ' + JSON.stringify(ch))
    value += (d & 31) * Math.pow(2, shift)
    if (d & 32) shift += 5
    else {
      const neg = value % 2 === 1
      value = Math.floor(value / 2)
      out.push(neg ? -value : value)
      value = 0; shift = 0
    }
  }
  if (shift !== 0) throw new Error('truncated VLQ')
  return out
}

// -> array of {genLine, genCol, src, srcLine, srcCol, name} (0-based), in order of appearance
function decodeMappings (map) {
  const tokens = []
  let src = 0; let srcLine = 0; let srcCol = 0; let name = 0
  const lines = String(map.mappings).split(';')
  for (let gl = 0; gl < lines.length; gl++) {
    let genCol = 0
    if (!lines[gl]) continue
    for (const seg of lines[gl].split(',')) {
      if (!seg) continue
      const f = decodeVlqSegment(seg)
      if (![1, 4, 5].includes(f.length)) throw new Error('segment with ' + f.length + ' fields')
      genCol += f[0]
      const t = { genLine: gl, genCol }
      if (f.length >= 4) {
        src += f[1]; srcLine += f[2]; srcCol += f[3]
        t.src = src; t.srcLine = srcLine; t.srcCol = srcCol
        if (f.length === 5) { name += f[4]; t.name = name }
      }
      tokens.push(t)
    }
  }
  return tokens
}

function validateEnvelope (map) {
  const errs = []
  if (map === null || typeof map !== 'object') return ['map is not an object']
  if (map.version !== 3) errs.push('version is ' + JSON.stringify(map.version))
  if (!Array.isArray(map.sources)) errs.push('sources is not an array')
  if (typeof map.mappings !== 'string') errs.push('mappings is not a string')
  if (map.names !== undefined && !Array.isArray(map.names)) errs.push('names is not an array')
  return errs
}

// index tokens by generated line, sorted by column
function indexByGenLine (tokens) {
  const m = new Map()
  for (const t of tokens) { if (!m.has(t.genLine)) m.set(t.genLine, []); m.get(t.genLine).push(t) }
  for (const l of m.values()) l.sort((a, b) => a.genCol - b.genCol)
  return m
}

// greatest lower bound on the same line
function lookupSameLine (idx, line, col) {
  const l = idx.get(line)
  if (!l) return null
  let best = null
  for (const t of l) { if (t.genCol <= col) best = t; else break }
  return best
}

// greatest lower bound over (line, col) lexicographic order across lines (what the `sourcemap` crate's lookup_token does)
function lookupGlobal (sortedTokens, line, col) {
  let lo = 0; let hi = sortedTokens.length
  while (lo < hi) {
    const mid = (lo + hi) >> 1
    const t = sortedTokens[mid]
    if (t.genLine < line || (t.genLine === line && t.genCol <= col)) lo = mid + 1; else hi = mid
  }
  return lo > 0 ? sortedTokens[lo - 1] : null
}

module.exports = { TRAILER, splitTrailer, decodeMappings, decodeVlqSegment, validateEnvelope, indexByGenLine, lookupSameLine, lookupGlobal }

// ---- encoding (for generated original maps) ----
function encodeVlq (n) {
  let v = n < 0 ? ((-n) << 1) | 1 : n << 1
  let out = ''
  do { let d = v & 31; v >>>= 5; if (v > 0) d |= 32; out += B64[d] } while (v > 0)
  return out
}
// tokens: [{genLine, genCol, src?, srcLine?, srcCol?, name?}] -> mappings string
function encodeMappings (tokens) {
  const sorted = tokens.slice().sort((a, b) => a.genLine - b.genLine || a.genCol - b.genCol)
  let out = ''
  let line = 0
  let prevCol = 0; let prevSrc = 0; let prevSrcLine = 0; let prevSrcCol = 0; let prevName = 0
  let first = true
  for (const t of sorted) {
    while (line < t.genLine) { out += ';'; line++; prevCol = 0; first = true }
    if (!first) out += ','
    first = false
    out += encodeVlq(t.genCol - prevCol); prevCol = t.genCol
    if (t.src !== undefined) {
      out += encodeVlq(t.src - prevSrc) + encodeVlq(t.srcLine - prevSrcLine) + encodeVlq(t.srcCol - prevSrcCol)
      prevSrc = t.src; prevSrcLine = t.srcLine; prevSrcCol = t.srcCol
      if (t.name !== undefined) { out += encodeVlq(t.name - prevName); prevName = t.name }
    }
  }
  return out
}
module.exports.encodeVlq = encodeVlq
module.exports.encodeMappings = encodeMappings
