'use strict'
// Shared helpers: seeded PRNG (no wall clock, no Math.random), hashing, paths.
const crypto = require('crypto')
const path = require('path')

const VERIF = path.resolve(__dirname, '..', '..')

function hashStr (s) {
  return crypto.createHash('sha1').update(s).digest('hex').slice(0, 16)
}

function seedFrom (...parts) {
  const h = crypto.createHash('sha1').update(parts.map(String).join('|')).digest()
  return [h.readUInt32LE(0), h.readUInt32LE(4), h.readUInt32LE(8), h.readUInt32LE(12)]
}

// xoshiro128** — deterministic, fast, good enough for workload generation
class Rng {
  constructor (...parts) {
    this.s = seedFrom(...parts)
    if (!this.s.some(x => x)) this.s[0] = 1
  }

  next () {
    const s = this.s
    const rotl = (x, k) => ((x << k) | (x >>> (32 - k))) >>> 0
    const result = (Math.imul(rotl(Math.imul(s[1], 5) >>> 0, 7), 9)) >>> 0
    const t = (s[1] << 9) >>> 0
    s[2] ^= s[0]; s[3] ^= s[1]; s[1] ^= s[2]; s[0] ^= s[3]
    s[2] ^= t
    s[3] = rotl(s[3], 11)
    s[0] >>>= 0; s[1] >>>= 0; s[2] >>>= 0
    return result
  }

  float () { return this.next() / 4294967296 }
  int (n) { return n <= 0 ? 0 : Math.floor(this.float() * n) }
  range (a, b) { return a + this.int(b - a + 1) } // inclusive
  bool (p = 0.5) { return this.float() < p }
  pick (arr) { return arr[this.int(arr.length)] }
  shuffle (arr) {
    const a = arr.slice()
    for (let i = a.length - 1; i > 0; i--) { const j = this.int(i + 1); [a[i], a[j]] = [a[j], a[i]] }
    return a
  }

  sample (arr, k) { return this.shuffle(arr).slice(0, Math.min(k, arr.length)) }
  subset (arr, p = 0.5) { return arr.filter(() => this.bool(p)) }
  weighted (pairs) { // [[weight, value], ...]
    let tot = 0
    for (const [w] of pairs) tot += w
    let x = this.float() * tot
    for (const [w, v] of pairs) { x -= w; if (x < 0) return v }
    return pairs[pairs.length - 1][1]
  }

  fork (...parts) { return new Rng(this.next(), this.next(), ...parts) }
}

function chunk (arr, n) {
  const out = []
  for (let i = 0; i < arr.length; i += n) out.push(arr.slice(i, i + n))
  return out
}

function clip (s, n = 200) {
  s = String(s)
  return s.length > n ? s.slice(0, n) + `…(+${s.length - n})` : s
}

// line structure of a JavaScript text the way swc, V8 and acorn agree on it: LF, CRLF and lone CR end a line
// (U+2028 / U+2029 are deliberately not handled here: swc's maps do not count them while V8 and acorn do,
// callers skip texts that contain them raw)
const EOL_RE = /\r\n|\r|\n/g
function lineStarts (text) {
  const out = [0]
  EOL_RE.lastIndex = 0
  let m
  while ((m = EOL_RE.exec(text))) out.push(m.index + m[0].length)
  return out
}
function splitLines (text) { return text.split(/\r\n|\r|\n/) }
const hasRawLsPs = (text) => /[\u2028\u2029]/.test(text)

module.exports = { VERIF, hashStr, Rng, chunk, clip, lineStarts, splitLines, hasRawLsPs }
