'use strict'
// E2.1: bounded-exhaustive catalogue — statement/scope placements x operation forms.
// Every program is a function `main(w)` over the observable world `w` (see world.js); every world name
// used is unique within the program so that event logs are unambiguous.

class Fresh {
  constructor () { this.n = 100; this.locals = []; this.pre = []; this.needAlone = false }
  id () { return ++this.n }
  s () { return `w.s${this.id()}` } // logged read of a marked string
  f () { return `w.f${this.id()}()` } // logged call returning a marked string
  o () { return `w.o${this.id()}` } // world object (logged toPrimitive)
  lit () { return `'⟦L${this.id()}⟧'` }
  loc (init) { const n = `a${this.id()}`; this.locals.push(`${n} = ${init || this.s()}`); return n } // local identifier
}

// ---- operation forms -------------------------------------------------------------------------------
// f(F) -> expression text. meta: ops (operations it contains), instr (expected instrumented under FULL),
// kf (known-finding tag the form is a witness of), needs ('this'), sloppy (only in sloppy mode)
const FORMS = []
function form (id, meta, f) { FORMS.push(Object.assign({ id, f, ops: [], instr: true }, meta)) }

// binary +
form('plus-ident-lit', { ops: ['+'] }, F => `${F.loc()} + ${F.lit()}`)
form('plus-lit-ident', { ops: ['+'] }, F => `${F.lit()} + ${F.loc()}`)
form('plus-ident-ident', { ops: ['+'] }, F => `${F.loc()} + ${F.loc()}`)
form('plus-ident-call', { ops: ['+'] }, F => `${F.loc()} + ${F.f()}`)
form('plus-call-ident', { ops: ['+'] }, F => `${F.f()} + ${F.loc()}`)
form('plus-call-call', { ops: ['+'] }, F => `${F.f()} + ${F.f()}`)
form('plus-member-member', { ops: ['+'] }, F => `w.o${F.id()}.s${F.id()} + w.o${F.id()}.s${F.id()}`)
form('plus-computed', { ops: ['+'] }, F => `w.o${F.id()}[w.k${F.id()}] + ${F.s()}`)
form('plus-paren', { ops: ['+'] }, F => `(${F.loc()}) + (${F.s()})`)
form('plus-chain3', { ops: ['+'] }, F => `${F.loc()} + ${F.s()} + ${F.f()}`)
form('plus-nested-right', { ops: ['+'] }, F => `${F.loc()} + (${F.s()} + ${F.f()})`)
form('plus-litsum-left', { ops: ['+'], kf: 'D6' }, F => `'x${F.id()}' + 'y' + ${F.loc()}`)
form('plus-litsum-paren-right', { ops: ['+'] }, F => `${F.loc()} + ('x${F.id()}' + 'y')`)
form('plus-all-literal', { ops: ['+'], instr: false }, F => `'x${F.id()}' + 'y' + 1`)
form('plus-this-member', { ops: ['+'], needs: 'this' }, F => `this.s${F.id()} + ${F.loc()}`)
form('plus-tpl-nosub', { ops: ['+'] }, F => `\`t${F.id()}\` + ${F.loc()}`)
form('plus-number', { ops: ['+'] }, F => `1 + ${F.loc()}`)
form('plus-bigint-regex', { ops: ['+'] }, F => `${F.loc()} + 1n + /r${F.id()}/g`)
form('plus-obj-toprim', { ops: ['+'] }, F => `${F.o()} + ${F.s()}`)
form('plus-alias-reassign', { ops: ['+'] }, F => { const a = F.loc(); return `${a} + (${a} = ${F.s()}, ${F.f()}) + ${a}` })
form('plus-alias-closure', { ops: ['+'] }, F => { const a = F.loc(); return `${a} + ((() => { ${a} = ${F.s()} })(), ${F.f()})` })
// an identifier operand next to an operand whose evaluation runs an implicit coercion that reassigns the identifier
// (the identifier must have been read before), or next to an unresolvable / TDZ identifier (the ReferenceError comes first)
const reassigner = (F, a) => F.loc(`{ valueOf() { ${a} = ${F.s()}; return 1 }, toString() { ${a} = ${F.s()}; return 't' } }`)
for (const [tag, mk] of [['negated', o => `-${o}`], ['unaryplus', o => `+${o}`], ['bitnot', o => `~${o}`], ['arith', o => `${o} * 2`], ['compare', o => `(${o} < 1)`], ['stringcall', o => `String(${o})`], ['paren-negated', o => `(-${o})`], ['double-negated', o => `- -${o}`]]) {
  form(`plus-ident-then-${tag}-reassigner`, { ops: ['+'] }, F => { const a = F.loc(); return `${a} + ${mk(reassigner(F, a))}` })
}
form('addassign-ident-then-negated-reassigner', { ops: ['+='] }, F => { const a = F.loc(); return `${a} += -${reassigner(F, a)}` })
form('addassign-ident-then-unaryplus-reassigner', { ops: ['+='] }, F => { const a = F.loc(); return `${a} += +${reassigner(F, a)}` })
form('tpl-ident-then-negated-reassigner', { ops: ['tpl'] }, F => { const a = F.loc(); return `\`\${${a}}|\${-${reassigner(F, a)}}\`` })
form('concat-ident-arg-then-negated-reassigner', { ops: ['concat'] }, F => { const a = F.loc(); return `${F.loc()}.concat(${a}, -${reassigner(F, a)})` })
form('plus-undeclared-then-negated-worldobj', { ops: ['+'] }, F => `undeclaredV${F.id()} + -w.o${F.id()}`)
form('plus-undeclared-then-ident', { ops: ['+'] }, F => `undeclaredV${F.id()} + ${F.loc()}`)
form('plus-undeclared-then-call', { ops: ['+'] }, F => `undeclaredV${F.id()} + ${F.f()}`)
form('plus-call-then-undeclared', { ops: ['+'] }, F => `${F.f()} + undeclaredV${F.id()}`)
form('addassign-undeclared-target', { ops: ['+='] }, F => `undeclaredV${F.id()} += ${F.f()}`)
form('concat-undeclared-receiver', { ops: ['concat'] }, F => `undeclaredV${F.id()}.concat(${F.f()})`)
form('plus-tdz-then-negated-worldobj', { ops: ['+'] }, F => { const t = 'tdzV' + F.id(); return `(() => { const r = ${t} + -w.o${F.id()}; let ${t} = 1; return r })()` })
form('plus-negated-worldobjs', { ops: ['+'] }, F => `-w.o${F.id()} + -w.o${F.id()}`)
// an enabled operation inside the computed key of a plain member chain
form('plus-in-computed-key', { ops: ['+'] }, F => `w.o${F.id()}[${F.s()} + ${F.f()}]`)
form('plus-in-computed-key-chain', { ops: ['+'] }, F => `w.o${F.id()}[${F.loc()} + ${F.s()}].p.q`)
form('tpl-in-computed-key', { ops: ['tpl'] }, F => `w.o${F.id()}[\`k\${${F.loc()}}\`]`)
form('call-in-computed-key-this', { ops: ['trim'], needs: 'this' }, F => `this.o${F.id()}[${F.loc()}.trim()]`)
form('call-in-computed-key-local', { ops: ['trim'] }, F => `${F.loc(F.o())}[${F.loc()}.trim()].p`)
// unary operators applied to an effectful, instrumented operand
for (const [tag, un] of [['void', 'void '], ['typeof', 'typeof '], ['not', '!'], ['neg', '-'], ['pos', '+'], ['bitnot', '~']]) {
  form(`plus-${tag}-of-instrumented-call-operand`, { ops: ['+'] }, F => `${F.loc()} + ${un}w.id${F.id()}(${F.s()} + ${F.f()})`)
}
form('addassign-void-of-instrumented-call', { ops: ['+=', '+'] }, F => `${F.loc()} += void w.id${F.id()}(${F.s()} + ${F.f()})`)
form('tpl-void-of-instrumented-call-subst', { ops: ['tpl', '+'] }, F => `\`\${${F.loc()}}|\${void w.id${F.id()}(${F.s()} + ${F.f()})}\``)
form('concat-void-of-instrumented-call-arg', { ops: ['concat', 'trim'] }, F => `${F.loc()}.concat(void w.id${F.id()}(${F.f()}.trim()), ${F.s()})`)
form('proto-apply-void-elem', { ops: ['concat', '+'] }, F => `String.prototype.concat.apply(${F.loc()}, [void w.id${F.id()}(${F.s()} + ${F.f()}), ${F.s()}])`)
// operands that look inert but run code when evaluated: class expressions (heritage, computed keys, static fields / blocks)
form('plus-ident-then-class-static-block-reassigner', { ops: ['+'] }, F => { const a = F.loc(); return `${a} + class { static toString() { return 'K' } static { ${a} = ${F.s()} } }` })
form('plus-ident-then-class-computed-key-reassigner', { ops: ['+'] }, F => { const a = F.loc(); return `${a} + class { static toString() { return 'K' } [(${a} = ${F.s()}, 'k')]() {} }` })
form('plus-ident-then-class-heritage-effect', { ops: ['+'] }, F => { const a = F.loc(); return `${a} + class extends (${a} = ${F.s()}, Object) { static toString() { return 'K' } }` })
form('addassign-ident-then-class-static-field', { ops: ['+='] }, F => { const a = F.loc(); return `${a} += class { static toString() { return 'K' } static f = (${a} = ${F.s()}) }` })
form('plus-ident-then-inert-function-operands', { ops: ['+'] }, F => `${F.loc()} + function () { return 1 }.length + (() => 2).length`)
// the same identifier repeated among the arguments, literals in between
form('call-spread-of-string-literal', { ops: ['concat'] }, F => `${F.loc()}.concat(${F.s()}, ...'d${F.id()}')`)
form('proto-call-spread-of-string-literal', { ops: ['concat'] }, F => `String.prototype.concat.call(${F.loc()}, ...'e${F.id()}', ${F.f()})`)
form('concat-repeated-ident-after-literal', { ops: ['concat'] }, F => { const b = F.loc(); return `${F.loc()}.concat(${b}, 'x${F.id()}', ${b})` })
form('proto-call-repeated-ident-after-literals', { ops: ['concat'] }, F => { const b = F.loc(); return `String.prototype.concat.call(${F.loc()}, ${b}, 1, 'y${F.id()}', ${b})` })
form('proto-apply-repeated-ident-after-literal', { ops: ['concat'] }, F => { const b = F.loc(); return `String.prototype.concat.apply(${F.loc()}, [${b}, 'z${F.id()}', ${b}, ${b}])` })
form('bare-call-repeated-ident-after-literal', { ops: ['aloneMethod'], nodemand: true }, F => { F.needAlone = true; const b = F.loc(); return `aloneMethod(${b}, 'q${F.id()}', ${b})` })
form('concat-repeated-receiver-as-arg', { ops: ['concat'] }, F => { const b = F.loc(); return `${b}.concat('r${F.id()}', ${b}, ${b})` })
form('plus-cond-operand', { ops: ['+'] }, F => `${F.loc()} + (w.b${F.id()} ? ${F.s()} : ${F.f()})`)
form('plus-mul-operand', { ops: ['+'] }, F => `${F.loc()} + w.i${F.id()} * 2`)
form('plus-unary-operands', { ops: ['+'] }, F => `typeof ${F.loc()} + -w.i${F.id()}`)
form('plus-assign-operand', { ops: ['+'] }, F => { const a = F.loc(); return `(${a} = ${F.s()}) + ${a}` })
form('plus-update-operand', { ops: ['+'] }, F => { const a = F.loc('w.i' + F.id()); return `${a}++ + ${F.s()} + ${a}` })
form('plus-new-operand', { ops: ['+'] }, F => `new w.C${F.id()}(${F.s()}) + ${F.s()}`)
form('plus-fnexpr-operand', { ops: ['+'] }, F => `(function () { return ${F.s()} })() + ${F.loc()}`)
form('plus-arrow-operand', { ops: ['+'] }, F => `(() => ${F.s()} + ${F.f()})() + ${F.loc()}`)
form('plus-seq-operand-instrumented-first', { ops: ['+'] }, F => { const u = F.loc(); return `${F.f()} + (${u} = ${F.loc()} + ${F.f()}, ${u})` })
form('plus-seq-operand-both-instrumented', { ops: ['+', 'tpl'] }, F => `${F.f()} + (${F.s()} + ${F.f()}, \`\${${F.f()}}\`)`)
form('addassign-seq-operand-instrumented-first', { ops: ['+=', '+'] }, F => { const u = F.loc(); return `${F.loc()} += (${u} = ${F.s()} + ${F.f()}, ${u})` })
form('plus-fnexpr-default-param-operand', { ops: ['+'] }, F => `${F.f()} + w.cb${F.id()}(function (it, sep = ${F.s()} + ${F.f()}) { return sep + it })`)
form('plus-method-default-param-operand', { ops: ['+'] }, F => `${F.f()} + ({ m(sep = \`\${${F.s()}}|\${${F.f()}}\`) { return sep } }).m()`)
form('call-arg-after-fnexpr-default-param', { ops: ['concat', '+'] }, F => `w.id${F.id()}(${F.s()} + ${F.f()}, function (q = ${F.loc()}.trim()) { return q })`)
form('nest-cond-in-plus', { ops: ['+'] }, F => `${F.f()} + (w.b${F.id()} ? ${F.s()} + ${F.f()} : ${F.s()})`)
form('nest-logical-in-plus', { ops: ['+'] }, F => `${F.f()} + (w.b1 && ${F.s()} + ${F.f()}) + (w.n${F.id()} ?? ${F.s()} + ${F.f()})`)
form('nest-array-in-plus', { ops: ['+', 'join'] }, F => `${F.f()} + [${F.s()} + ${F.f()}, ${F.s()}].join(${F.s()})`)
form('nest-object-in-plus', { ops: ['+'] }, F => `${F.f()} + w.id${F.id()}({ k: ${F.s()} + ${F.f()} }).k`)
form('nest-plaincall-arg-in-plus', { ops: ['+'] }, F => `${F.f()} + w.id${F.id()}(${F.s()} + ${F.f()}, \`\${${F.f()}}\`)`)
form('nest-new-arg-in-plus', { ops: ['+'] }, F => `${F.f()} + new w.C${F.id()}(${F.s()} + ${F.f()}).s1`)
form('nest-tagged-in-plus', { ops: ['+'] }, F => `${F.f()} + w.tag${F.id()}\`x\${${F.s()} + ${F.f()}}y\``)
form('nest-classexpr-in-plus', { ops: ['+'] }, F => `${F.f()} + (class { static p = ${F.s()} + ${F.f()} }).p`)
form('nest-switch-iife-in-plus', { ops: ['+'] }, F => `${F.f()} + (() => { switch (${F.s()} + ${F.f()}) { case ${F.s()} + ${F.f()}: return ${F.s()}; default: return ${F.s()} + ${F.f()} } })()`)
form('nest-cond-in-call-arg', { ops: ['concat', '+'] }, F => `${F.f()}.concat(${F.s()}, w.b${F.id()} ? ${F.s()} + ${F.f()} : ${F.s()}, ${F.f()})`)
form('nest-cond-in-tpl', { ops: ['tpl', '+'] }, F => `\`\${${F.f()}}\${w.b${F.id()} ? ${F.s()} + ${F.f()} : ${F.s()}}\${${F.f()}}\``)
form('nest-destructure-default-in-plus', { ops: ['+'] }, F => `${F.f()} + (({ k = ${F.s()} + ${F.f()} }) => k)({}) + ${F.f()}`)
form('nest-for-head-iife-in-plus', { ops: ['+'] }, F => `${F.f()} + (() => { let r = ''; for (let i = ${F.s()} + ${F.f()}; r.length < 1; r += ${F.s()} + ${F.f()}) { r += i } return r })()`)
form('nest-accessor-target', { ops: ['+='] }, F => `({ get p() { return ${F.s()} }, set p(v) { w.out(v) } }).p += ${F.f()}`)
// delete operands are a documented exclusion: nothing inside is instrumented, whatever the operand looks like
form('delete-optchain-method', { ops: ['substring'], instr: false }, F => `delete w.o${F.id()}?.s1.substring(1).c`)
form('delete-optchain-method-plus-arg', { ops: ['substring', '+'], instr: false }, F => `delete w.o${F.id()}?.s1.substring(w.i${F.id()} + 1).c`)
form('delete-optcall-method', { ops: ['trim'], instr: false }, F => `delete w.o${F.id()}.s1?.trim().x`)
// parenthesised operands: still references (delete (a?.b.c) deletes). The result of deleting a non-configurable property (false /
// TypeError in strict code) tells a reference from a value (true)
form('delete-paren-optchain-method-nonconfigurable', { ops: ['slice'], instr: false }, F => `delete (w.o${F.id()}?.arr1.slice(0).length)`)
form('delete-paren-method-nonconfigurable', { ops: ['slice'], instr: false }, F => `delete (w.arr${F.id()}.slice(0).length)`)
form('delete-double-paren-optcall-method-nonconfigurable', { ops: ['concat'], instr: false }, F => `delete ((w.o${F.id()}.arr1?.concat(${F.s()}).length))`)
form('delete-member-of-method-call', { ops: ['substring'], instr: false }, F => `delete ${F.loc()}.substring(1).c`)
form('delete-computed-tpl-key', { ops: ['tpl'], instr: false }, F => `delete w.o${F.id()}[\`k\${${F.loc()}}\`]`)
form('delete-then-plus', { ops: ['+'] }, F => `(delete w.o${F.id()}?.s1.substring(1).c) + ${F.loc()} + ${F.f()}`)
// D7 seen from the outside: a function whose parameter default is instrumented is called while the calling expression
// has live temporaries (both use the enclosing function's __datadog_*_0..)
form('addassign-live-temps-across-default-param-call', { ops: ['+=', '+'] }, F => { const fn = F.loc(`function (x = ${F.s()} + ${F.f()}) { return x }`); return `w.o${F.id()}.p += ${fn}()` })
form('addassign-live-temps-across-hoisted-fn-two-defaults', { ops: ['+=', '+', 'trim'] }, F => `(() => { const o = { msg: ${F.s()} }; o.msg += g(${F.s()}); function g(n, a = ${F.s()} + n.trim(), b = a + ${F.f()}) { return b } return o.msg })()`)
form('plus-live-temps-across-class-field-init', { ops: ['+'] }, F => { const K = F.loc(`class { p = ${F.s()} + ${F.f()}; static q = \`\${${F.s()}}|\${${F.f()}}\` }`); return `${F.f()} + new ${K}().p + ${K}.q` })
form('concat-live-temps-across-method-default-param-call', { ops: ['concat', '+'] }, F => { const o = F.loc(`{ m(x = ${F.s()} + ${F.f()}, y = x.trim()) { return x + y } }`); return `${F.f()}.concat(${o}.m(), ${F.s()})` })
form('minus-only', { ops: [], instr: false }, F => `w.i${F.id()} - w.i${F.id()}`)
// +=
form('addassign-ident-lit', { ops: ['+='] }, F => `${F.loc()} += ${F.lit()}`)
form('addassign-ident-call', { ops: ['+='] }, F => `${F.loc()} += ${F.f()}`)
form('addassign-ident-ident', { ops: ['+='] }, F => `${F.loc()} += ${F.loc()}`)
form('addassign-ident-nested', { ops: ['+=', '+'] }, F => `${F.loc()} += ${F.s()} + ${F.f()}`)
form('addassign-ident-numsum', { ops: ['+='] }, F => `${F.loc()} += 7 + 3`)
form('addassign-ident-litsum-mixed', { ops: ['+='] }, F => `${F.loc()} += 1 + 2 + 'x${F.id()}'`)
form('addassign-ident-self-alias', { ops: ['+='] }, F => { const a = F.loc(); return `${a} += (${a} = ${F.s()}, ${F.f()})` })
form('addassign-localobj-member', { ops: ['+='] }, F => `${F.loc(F.o())}.p += ${F.s()}`)
form('addassign-this-member', { ops: ['+='], needs: 'this' }, F => `this.p${F.id()} += ${F.s()}`)
form('addassign-localobj-litkey', { ops: ['+='] }, F => `${F.loc(F.o())}['q'] += ${F.s()}`)
form('addassign-world-member', { ops: ['+='] }, F => `w.o${F.id()}.p += ${F.s()}`)
form('addassign-call-member', { ops: ['+='] }, F => `w.fobj${F.id()}().p += ${F.s()}`)
form('addassign-computed-effect-key', { ops: ['+='] }, F => `${F.loc(F.o())}[${F.f()}] += ${F.s()}`)
form('addassign-member-chain-computed', { ops: ['+='] }, F => `w.o${F.id()}.o2[w.k${F.id()}] += ${F.f()}`)
form('addassign-paren-computed-effect-key', { ops: ['+='] }, F => `(${F.loc(F.o())}[${F.f()}]) += ${F.s()}`)
form('addassign-paren-callresult-member', { ops: ['+='] }, F => `((w.fobj${F.id()}().p)) += ${F.s()}`)
form('addassign-super-computed-effect-key', { ops: ['+=', '+'] }, F => `new (class extends Object { m() { super[${F.f()} + 'k'] += ${F.s()}; return Object.keys(this).join() } })().m()`)
form('addassign-super-member', { ops: ['+='] }, F => `new (class extends Object { m() { super.p += ${F.f()}; return Object.keys(this).join() } })().m()`)
form('addassign-update-key', { ops: ['+='] }, F => { const i = F.loc('w.i' + F.id()); return `${F.loc(F.o())}[${i}++] += ${F.s()} + ${i}` })
form('addassign-this-chain', { ops: ['+='], needs: 'this' }, F => `this.o${F.id()}.p += ${F.s()}`)
form('addassign-private-like-call-target', { ops: ['+=', 'tpl'] }, F => `w.fobj${F.id()}().q += \`\${${F.s()}}\``)
form('addassign-destructure', { ops: [], instr: false }, F => { const a = F.loc(); return `[${a}] = [${F.s()}]` })
form('subassign', { ops: [], instr: false }, F => `${F.loc('w.i' + F.id())} -= w.i${F.id()}`)
// templates
form('tpl-1-ident', { ops: ['tpl'] }, F => `\`a${F.id()}\${${F.loc()}}b\``)
form('tpl-1-call', { ops: ['tpl'] }, F => `\`\${${F.f()}}\``)
form('tpl-3-mixed', { ops: ['tpl'] }, F => `\`x\${${F.loc()}}y\${${F.f()}}z\${w.o${F.id()}.s${F.id()}}\``)
form('tpl-lit-subst', { ops: ['tpl'], instr: false }, F => `\`a\${'lit${F.id()}'}b\${${F.loc()}}\``)
form('tpl-lit-subst-nested-op', { ops: ['tpl', '+'], instr: false }, F => `\`a\${1}b\${${F.loc()} + ${F.f()}}\``)
form('tpl-nested', { ops: ['tpl'] }, F => `\`a\${\`b\${${F.loc()}}\`}c\``)
form('tpl-with-plus', { ops: ['tpl', '+'] }, F => `\`a\${${F.loc()} + ${F.f()}}c\``)
form('tpl-obj-toprim-last', { ops: ['tpl'] }, F => `\`a\${${F.f()}}b\${${F.o()}}\``)
form('tpl-bare-plus-then-effect', { ops: ['tpl'], kf: 'D6', cfg: 'TPL_ONLY' }, F => `\`\${${F.s()} + ${F.f()}}-\${${F.f()}}\``)
// a template WITH substitutions as receiver of a configured method (it becomes a hook itself before the call is looked at),
// arguments that need temporaries of their own
form('tpl-receiver-concat-plus-arg', { ops: ['tpl', 'concat', '+'] }, F => `\`\${${F.s()}}:\`.concat(${F.s()} + ${F.f()})`)
form('tpl-receiver-replace-method-args', { ops: ['tpl', 'replace', 'trim'] }, F => `\`\${${F.f()}}-\${${F.s()}}\`.replace(${F.f()}.trim(), ${F.s()})`)
form('tpl-receiver-trim-then-concat-tpl-arg', { ops: ['tpl', 'trim', 'concat'] }, F => `\`\${${F.s()}} \`.trim().concat(\`\${${F.f()}}\`, ${F.f()})`)
// templates with a STRING-literal substitution next to text that would read as `${` if the two were glued together
// (the template is an exclusion; the `+` around it gets the file printed)
form('tpl-literal-dollar-before-brace', { ops: ['+', 'tpl'] }, F => `${F.f()} + \`cost: \${'$'}{\${${F.s()}}}\``)
form('tpl-dollar-before-literal-brace', { ops: ['+', 'tpl'] }, F => `${F.f()} + \`a$\${'{'}\${${F.s()}}}\``)
form('tpl-literal-backtick-and-backslash', { ops: ['+', 'tpl'] }, F => `${F.f()} + \`q\${'\\\\'}\${'\`'}\${${F.s()}}\${'\\n$'}{z}\``)
// a bare comma sequence as the computed key of a += target (the key is the LAST expression)
form('addassign-seq-key', { ops: ['+='] }, F => `w.o${F.id()}[${F.f()}, w.k${F.id()}] += ${F.s()}`)
form('addassign-paren-target-seq-key', { ops: ['+='] }, F => `(w.o${F.id()}[${F.f()}, w.k${F.id()}]) += ${F.f()}`)
form('tpl-bare-seq-subst', { ops: ['tpl'] }, F => `\`\${${F.f()}, ${F.s()}}-\${${F.f()}}\``)
form('tpl-nosubst', { ops: [], instr: false }, F => `\`plain${F.id()}\``)
form('tpl-alias', { ops: ['tpl'] }, F => { const a = F.loc(); return `\`\${${a}}-\${(${a} = ${F.s()}, ${F.f()})}-\${${a}}\`` })
form('tpl-tagged', { ops: [], instr: false }, F => `w.tag${F.id()}\`a\${${F.loc()}}b\``)
// method calls
form('call-ident-noargs', { ops: ['trim'] }, F => `${F.loc()}.trim()`)
form('call-ident-args', { ops: ['substring'] }, F => `${F.loc()}.substring(w.i${F.id()}, 9)`)
form('call-ident-mixed-args', { ops: ['concat'] }, F => `${F.loc()}.concat(${F.s()}, ${F.lit()}, ${F.f()}, ${F.loc()})`)
form('call-member-recv', { ops: ['trim'] }, F => `w.o${F.id()}.s${F.id()}.trim()`)
form('call-callresult-recv', { ops: ['trim'] }, F => `${F.f()}.trim()`)
form('call-paren-recv', { ops: ['trim'] }, F => `(${F.loc()}).trim()`)
form('call-paren-plus-recv', { ops: ['trim', '+'] }, F => `(${F.loc()} + ${F.s()}).trim()`)
form('call-array-recv', { ops: ['join'] }, F => `[${F.loc()}, ${F.s()}].join(${F.s()})`)
form('call-lit-recv-allowed', { ops: ['concat'] }, F => `'⟦L${F.id()}⟧'.concat(${F.loc()}, ${F.f()})`)
form('call-lit-recv-allowed-litargs', { ops: ['concat'] }, F => `'⟦L${F.id()}⟧'.concat('x', 'y')`)
form('call-lit-recv-excluded', { ops: ['trim'], instr: false }, F => `'  ⟦L${F.id()}⟧ '.trim()`)
form('call-this-recv', { ops: ['trim'], instr: false, needs: 'this' }, F => `this.trim(${F.s()})`)
form('call-computed-name', { ops: ['trim'], instr: false }, F => `${F.loc()}['trim']()`)
form('call-spread-arg', { ops: ['concat'] }, F => `${F.loc()}.concat(...w.it${F.id()})`)
form('call-spread-mixed', { ops: ['concat'] }, F => `${F.loc()}.concat(${F.s()}, ...w.it${F.id()}, ${F.f()}, ...w.arr${F.id()})`)
form('call-chain', { ops: ['trim', 'concat', 'slice'] }, F => `${F.loc()}.trim().concat(${F.s()}).slice(1)`)
form('call-proxy-recv', { ops: ['trim'] }, F => `w.o${F.id()}.trim(${F.s()})`)
form('call-null-recv', { ops: ['trim'] }, F => `w.n${F.id()}.trim()`)
form('call-undefined-method', { ops: ['trim'] }, F => `w.i${F.id()}.trim(${F.f()})`)
form('call-unlisted', { ops: [], instr: false }, F => `${F.loc()}.charAt(1)`)
form('call-nested-arg-ops', { ops: ['concat', 'trim', '+'] }, F => `${F.loc()}.concat(${F.loc()}.trim(), ${F.s()} + ${F.f()})`)
form('call-arg-seq-instrumented-first', { ops: ['concat', '+'] }, F => { const u = F.loc(); return `${F.loc()}.concat((${u} = ${F.loc()} + ${F.f()}, ${u}))` })
form('tpl-seq-second-subst', { ops: ['tpl', '+'] }, F => { const u = F.loc(); return `\`\${${F.f()}}-\${(${u} = ${F.s()} + ${F.f()}, ${u})}\`` })
form('call-args-reassigned-by-replacer', { ops: ['replace'] }, F => { const text = F.loc(); const sep = F.loc("'⟦'"); const fn = F.loc(`(m) => { ${sep} = ${F.s()}; return '<' }`); return `${text}.replace(${sep}, ${fn})` })
form('call-args-reassigned-by-tostring', { ops: ['concat'] }, F => { const base = F.loc(); const head = F.loc(); const tail = F.loc(`{ toString() { ${head} = ${F.s()}; return 't' } }`); return `${base}.concat(${head}, ${tail})` })
form('proto-call-args-reassigned-by-replacer', { ops: ['replace'] }, F => { const text = F.loc(); const sep = F.loc("'⟦'"); const fn = F.loc(`(m) => { ${sep} = ${F.s()}; return '<' }`); return `String.prototype.replace.call(${text}, ${sep}, ${fn})` })
form('plus-operand-reassigned-by-valueof', { ops: ['+'], kf: 'D27' }, F => { const a = F.loc(); const o = F.loc(`{ valueOf() { ${a} = ${F.s()}; return 'v' } }`); return `${a} + ${o}` })
form('call-arg-alias', { ops: ['concat'] }, F => { const a = F.loc(); return `${a}.concat(${a}, (${a} = ${F.s()}, ${F.f()}), ${a})` })
form('call-new-member-recv', { ops: ['trim'] }, F => `new w.C${F.id()}().s1.trim()`)
form('call-super-like-member', { ops: ['trim'] }, F => `w.o${F.id()}.o2.s${F.id()}.trim()`)
form('call-prototype-member-recv', { ops: ['trim'], instr: false }, F => `w.X${F.id()}.prototype.trim()`)
// X.prototype.m.call / apply
form('proto-call-ident', { ops: ['trim'] }, F => `String.prototype.trim.call(${F.loc()})`)
form('proto-call-args-spread', { ops: ['concat'] }, F => `String.prototype.concat.call(${F.loc()}, ${F.s()}, ...w.it${F.id()})`)
form('proto-call-effect-this', { ops: ['concat'] }, F => `String.prototype.concat.call(${F.f()}, ${F.s()})`)
form('proto-call-world-path', { ops: ['concat'] }, F => `w.X${F.id()}.prototype.concat.call(${F.loc()}, ${F.lit()})`)
form('proto-call-computed-class-path', { ops: ['concat'], nodemand: true }, F => `w.o${F.id()}[${F.loc("'X2'")}].prototype.concat.call(${F.loc()}, ${F.s()})`)
form('proto-apply-computed-literal-class-path', { ops: ['trim'], nodemand: true }, F => `w.o${F.id()}['X1'].prototype.trim.apply(${F.loc()}, [])`)
form('proto-call-private-class-path', { ops: ['substring'], nodemand: true }, F => `new (class { #K = String; m(s) { return this.#K.prototype.substring.call(s, 1) } })().m(${F.s()})`)
form('proto-call-callresult-class-path', { ops: ['concat'], nodemand: true }, F => `w.fobj${F.id()}().X1.prototype.concat.call(${F.loc()}, ${F.s()})`)
form('proto-call-paren-class-path', { ops: ['concat'], nodemand: true }, F => `(w.X${F.id()}).prototype.concat.call(${F.loc()}, ${F.s()})`)
// the method is missing on the prototype object: reading `.call` of undefined throws BEFORE the arguments are evaluated (D35)
form('proto-call-missing-method', { ops: ['concat'], nodemand: true, kf: 'D35' }, F => `Number.prototype.concat.call(${F.loc()}, ${F.f()})`)
// exotic apply shapes (D38): the whole argument list spread, a third argument that apply ignores
// the this value arrives through a spread, the argument list is written out after it
form('proto-apply-spread-this-then-list', { ops: ['concat'], nodemand: true }, F => `String.prototype.concat.apply(...[${F.s()}], [${F.s()}, ${F.f()}])`)
form('proto-call-spread-this-then-args', { ops: ['concat'], nodemand: true }, F => `String.prototype.concat.call(...[${F.s()}], ${F.s()}, ${F.f()})`)
form('proto-apply-spread-everything', { ops: ['concat'], nodemand: true, kf: 'D38' }, F => `String.prototype.concat.apply(...[${F.loc()}, [${F.s()}, ${F.f()}]])`)
form('proto-apply-ignored-third-argument', { ops: ['concat'], nodemand: true, kf: 'D38' }, F => `String.prototype.concat.apply(${F.loc()}, [${F.s()}], ${F.f()})`)
form('proto-apply-arraylit', { ops: ['concat'] }, F => `String.prototype.concat.apply(${F.loc()}, [${F.s()}, ${F.lit()}, ${F.f()}])`)
// literal this argument: the statement is silent about it (policy: left to the implementation; the code instruments apply('x', ['b', a]) but not apply('x', [a, 'b'])), the forms feed C01/C02/C03
form('proto-apply-literal-this-first-elem-nonliteral', { ops: ['concat'], nodemand: true }, F => `String.prototype.concat.apply('t${F.id()}', [${F.s()}, 'u${F.id()}'])`)
form('proto-apply-literal-this-only-elem-nonliteral', { ops: ['concat'], nodemand: true }, F => `String.prototype.concat.apply('t${F.id()}', [${F.f()}])`)
form('proto-call-literal-this-first-arg-nonliteral', { ops: ['concat'], nodemand: true }, F => `String.prototype.concat.call('t${F.id()}', ${F.s()}, 'u${F.id()}')`)
form('proto-apply-no-list', { ops: ['trim'] }, F => `String.prototype.trim.apply(${F.loc()})`)
form('proto-apply-no-list-effect-this', { ops: ['toUpperCase'] }, F => `String.prototype.toUpperCase.apply(${F.f()})`)
form('proto-apply-empty', { ops: ['trim'] }, F => `String.prototype.trim.apply(${F.loc()}, [])`)
form('proto-apply-variable-args', { ops: ['concat'], kf: 'D19' }, F => `String.prototype.concat.apply(${F.loc()}, w.arr${F.id()})`)
// (D19 family: a list that is not an array literal is not instrumented at all; canonical placement only)
// argument lists that are not arrays: apply() takes array-likes, null and undefined - and refuses primitives - where a spread wants an iterable
form('proto-apply-undefined-list', { ops: ['concat'], kf: 'D19' }, F => `String.prototype.concat.apply(${F.s()}, w.u${F.id()})`)
form('proto-apply-null-list', { ops: ['concat'], kf: 'D19' }, F => `String.prototype.concat.apply(${F.f()}, w.n${F.id()})`)
form('proto-apply-arraylike-list', { ops: ['concat'], kf: 'D19' }, F => `String.prototype.concat.apply(${F.s()}, { length: 2, 0: ${F.s()}, 1: ${F.f()} })`)
form('proto-apply-set-list', { ops: ['concat'], kf: 'D19' }, F => `String.prototype.concat.apply(${F.s()}, new Set([${F.s()}]))`)
form('proto-apply-string-list', { ops: ['concat'], kf: 'D19' }, F => `String.prototype.concat.apply(${F.s()}, ${F.s()})`)
form('proto-apply-observed-list', { ops: ['concat'], kf: 'D19' }, F => `String.prototype.concat.apply(${F.s()}, w.o${F.id()})`)
form('proto-apply-hole', { ops: ['concat'] }, F => `String.prototype.concat.apply(${F.loc()}, [${F.f()}, , ${F.lit()}])`)
form('proto-call-spread-this', { ops: ['concat'], nodemand: true }, F => `String.prototype.concat.call(...w.it${F.id()})`)
// a prototype call that is NOT instrumented (literal this, literal arguments) inside a file that IS printed (the `+` around it is instrumented)
form('proto-call-lit-this-left-alone-in-printed-file', { ops: ['trim', '+'] }, F => `String.prototype.trim.call(' t${F.id()} ') + ${F.s()}`)
form('proto-apply-lit-this-litargs-left-alone-in-printed-file', { ops: ['concat', '+'] }, F => `${F.f()} + String.prototype.concat.apply('a${F.id()}', ['b', 1, null])`)
form('proto-call-lit-this-litargs', { ops: ['concat'], instr: false }, F => `String.prototype.concat.call('⟦L${F.id()}⟧', 'x')`)
form('proto-call-lit-this-args', { ops: ['concat'], nodemand: true }, F => `String.prototype.concat.call('⟦L${F.id()}⟧', ${F.loc()})`)
// m.call / m.apply reached through something that is not a static `X.prototype.m` path (the rewriter instruments these too)
form('nonproto-call-local', { ops: ['concat'], nodemand: true }, F => `${F.loc()}.concat.call(${F.loc()}, ${F.s()})`)
form('nonproto-call-member-path', { ops: ['concat'], nodemand: true }, F => `w.o${F.id()}.s1.concat.call(${F.f()}, ${F.s()})`)
form('nonproto-call-callresult', { ops: ['concat'], nodemand: true }, F => `w.fobj${F.id()}().s1.concat.call(${F.f()}, ${F.s()})`)
form('nonproto-apply-callresult', { ops: ['concat'], nodemand: true }, F => `w.f${F.id()}().concat.apply(${F.f()}, [${F.s()}, ${F.f()}])`)
form('nonproto-call-computed-path', { ops: ['trim'], nodemand: true }, F => `w.o${F.id()}[w.k${F.id()}].trim.call(${F.f()})`)
form('proto-apply-nested-array-elem', { ops: ['concat'] }, F => `String.prototype.concat.apply(${F.loc()}, [[${F.s()}, ${F.f()}], ${F.s()}])`)
form('proto-apply-nested-array-deep', { ops: ['concat'] }, F => `String.prototype.concat.apply(${F.loc()}, [${F.f()}, [[${F.s()}], ${F.loc()}], { k: ${F.s()} }, [...w.it${F.id()}]])`)
form('proto-call-array-arg', { ops: ['concat'] }, F => `String.prototype.concat.call(${F.loc()}, [${F.s()}, ${F.f()}], ${F.s()})`)
form('call-array-arg', { ops: ['concat'] }, F => `${F.loc()}.concat([${F.s()}, [${F.f()}]], ${F.s()})`)
form('proto-apply-spread-elem', { ops: ['concat'] }, F => `String.prototype.concat.apply(${F.loc()}, [${F.s()}, ...w.it${F.id()}])`)
// optional chains
form('opt-ident-call', { ops: ['trim'] }, F => `${F.loc()}?.trim()`)
form('opt-null-call', { ops: ['trim'] }, F => `w.n${F.id()}?.trim()`)
form('opt-undef-member-call', { ops: ['trim'] }, F => `w.o${F.id()}.u1?.trim().length`)
form('opt-member-then-call', { ops: ['trim'] }, F => `w.o${F.id()}?.s${F.id()}.trim()`)
form('opt-call-continue', { ops: ['trim'] }, F => `${F.loc()}?.trim().length`)
form('opt-deep', { ops: ['concat'] }, F => `w.o${F.id()}?.o2.s${F.id()}.concat(${F.s()})`)
form('opt-invocation', { ops: ['trim'], instr: false }, F => `${F.loc()}.trim?.()`)
form('opt-invocation-then-method', { ops: ['trim'] }, F => `w.o${F.id()}.f1?.(${F.s()}).trim()`)
form('opt-invocation-undefined-then-method', { ops: ['trim'] }, F => `w.o${F.id()}.u1?.(${F.s()}).trim()`)
form('opt-prototype-recv', { ops: ['trim'], instr: false }, F => `w.X${F.id()}?.prototype.trim()`)
form('opt-invocation-noncallable-string', { ops: ['trim'] }, F => `w.o${F.id()}.s1?.(${F.f()}).trim()`)
form('opt-invocation-noncallable-number', { ops: ['concat'] }, F => `w.o${F.id()}.i1?.(${F.f()}).concat(${F.s()})`)
form('opt-invocation-spread-args', { ops: ['trim'] }, F => `w.o${F.id()}.f1?.(...w.it${F.id()}).trim()`)
form('opt-invocation-mixed-spread-args', { ops: ['concat'] }, F => `w.o${F.id()}.f1?.(${F.s()}, ...w.arr${F.id()}, ${F.f()}).concat(${F.s()})`)
form('opt-invocation-computed-callee', { ops: ['trim'] }, F => `w.o${F.id()}[w.k${F.id()}]?.(${F.s()}).trim()`)
form('opt-ident-invocation', { ops: ['trim'] }, F => { const a = F.loc('w.f' + F.id()); return `${a}?.(${F.s()}, ...w.it${F.id()}).trim()` })
form('opt-literal-base-string', { ops: ['substring'], instr: false }, F => `'⟦L${F.id()}⟧'?.substring(${F.loc('w.i' + F.id())})`)
form('opt-literal-base-number', { kf: 'D26', ops: ['trim'], nodemand: true }, F => `1?.toString().trim().concat(${F.s()})`)
form('opt-literal-base-regex', { kf: 'D26', ops: ['substring'], nodemand: true }, F => `/x${F.id()}/?.source.substring(1).concat(${F.f()})`)
form('opt-literal-invocation', { kf: 'D26', ops: ['trim'], nodemand: true }, F => `'⟦L${F.id()}⟧'.concat?.(${F.s()}).trim()`)
form('opt-null-literal-base', { kf: 'D26', ops: ['trim'], nodemand: true }, F => `null?.trim().concat(${F.f()})`)
form('opt-this-base', { ops: ['trim'], nodemand: true, needs: 'this' }, F => `this?.s${F.id()}.trim()`)
form('opt-unlisted', { ops: [], instr: false }, F => `${F.loc()}?.charAt(0)`)
// optional chains nested in the arguments / computed keys / callbacks of a lowered optional chain (formerly D17)
form('opt-callback-with-inner-chain', { ops: ['trim', 'replace', 'substring'] }, F => `w.o${F.id()}?.s1.trim().replace('⟦', function (m) { return m + w.n${F.id()}?.substring(1) + w.o${F.id()}?.s2.trim() })`)
form('opt-arrow-callback-with-inner-chain', { ops: ['concat', 'trim'] }, F => `${F.loc()}?.concat(w.cb${F.id()}((x) => ${F.loc()}?.trim()), w.n${F.id()}?.trim())`)
form('opt-inner-chain-in-computed-key', { ops: ['trim'] }, F => `w.o${F.id()}?.[w.n${F.id()}?.trim() ?? 's1'].trim()`)
form('opt-root-call-with-inner-chain-arg', { ops: ['trim'] }, F => `w.id${F.id()}(w.n${F.id()}?.trim())?.trim()`)
form('opt-null-outer-skips-inner', { ops: ['concat', 'trim'] }, F => `w.n${F.id()}?.concat(w.o${F.id()}?.s1.trim(), ${F.f()})`)
// optional call whose callee is itself a link of the chain: the call must keep its this (formerly lost: D32)
form('opt-call-on-opt-member', { ops: ['trim'] }, F => `w.o${F.id()}?.f1?.(${F.s()}).trim()`)
form('opt-call-on-opt-member-local', { ops: ['trim'] }, F => `${F.loc(F.o())}?.f2?.(${F.f()}, ${F.s()}).trim()`)
form('opt-call-on-opt-computed-member', { ops: ['concat'] }, F => `w.o${F.id()}?.[w.k${F.id()}]?.(${F.s()}).concat(${F.s()})`)
// a parenthesised optional chain used as callee keeps its object as this ((a?.b.c)() calls c on a?.b); lowered, the callee is a value (D46)
form('opt-paren-chain-as-callee', { ops: ['trim'], kf: 'D46', nodemand: true }, F => `(w.o${F.id()}?.s2.trim().toString)()`)
form('opt-call-on-member-after-opt', { ops: ['trim'], kf: 'D32' }, F => `w.o${F.id()}?.o2.f1?.(${F.s()}).trim()`)
form('opt-call-on-opt-member-null-fn', { ops: ['trim'] }, F => `w.o${F.id()}?.n1?.(${F.f()}).trim()`)
form('opt-call-on-opt-member-null-base', { ops: ['trim'] }, F => `w.n${F.id()}?.f1?.(${F.f()}).trim()`)
form('opt-call-on-member-of-null-after-opt', { ops: ['trim'] }, F => `w.o${F.id()}?.n1.f1?.(${F.s()}).trim()`)
form('opt-arg-opt', { ops: ['concat', 'trim'] }, F => `${F.loc()}?.concat(${F.loc()}?.trim())`)
form('opt-nested-arg-guard', { ops: ['trim', 'concat'] }, F => { const o = `w.o${F.id()}`; return `${o}?.n1?.trim().concat(${o}?.s2.trim())` })
form('opt-shadowed-undefined', { ops: ['trim'], kf: 'D21', sloppy: true }, F => `(function (undefined) { return w.n${F.id()}?.trim() })(5)`)
// bare call
// the bare function does not exist: the ReferenceError comes before the arguments are evaluated (D35 family: the callee problem shows after the arguments)
form('bare-allowed-undeclared-callee', { ops: ['aloneMethod'], nodemand: true, kf: 'D35' }, F => `aloneMethod(${F.f()})`)
form('bare-allowed', { ops: ['aloneMethod'], nodemand: true }, F => { F.needAlone = true; return `aloneMethod(${F.s()}, ${F.f()})` })
// a bare allowed call whose LATER argument is itself instrumented and needs temporaries, after an earlier non-literal argument
form('bare-allowed-plus-arg-after-call', { ops: ['aloneMethod', '+'], nodemand: true }, F => { F.needAlone = true; return `aloneMethod(${F.f()}, ${F.s()} + ${F.f()})` })
form('bare-allowed-method-arg-after-ident', { ops: ['aloneMethod', 'trim'], nodemand: true }, F => { F.needAlone = true; return `aloneMethod(${F.loc()}, ${F.f()}.trim(), ${F.s()})` })
form('bare-allowed-tpl-arg-after-member', { ops: ['aloneMethod', 'tpl'], nodemand: true }, F => { F.needAlone = true; return `aloneMethod(${F.s()}, \`\${${F.s()}}-\${${F.f()}}\`)` })
form('bare-allowed-nested-bare-args', { ops: ['aloneMethod', '+'], nodemand: true }, F => { F.needAlone = true; return `aloneMethod(aloneMethod(${F.f()}, ${F.s()} + ${F.f()}), ${F.s()} + ${F.f()})` })
form('bare-not-allowed', { ops: [], instr: false }, F => { F.needTrimFn = true; return `trim(${F.s()})` })

// ---- placements ------------------------------------------------------------------------------------
// p(E) -> statements of main's body. meta: top (outside any block/function body => excluded), excl (documented exclusion),
// thisOk (E sees main's this), asyncMain (main returns a promise), sloppy (needs sloppy mode), kf
const PLACEMENTS = []
function place (id, meta, p) { PLACEMENTS.push(Object.assign({ id, p, thisOk: false }, meta)) }

place('decl-init', { thisOk: true }, E => `const r = ${E}; w.out(r);`)
place('return', { thisOk: true }, E => `return ${E};`)
place('expr-stmt', { thisOk: true }, E => `w.out(${E});`)
place('throw', { thisOk: true }, E => `try { throw ${E}; } catch (e) { w.out(e) }`)
place('if-test-braced', { thisOk: true }, E => `if (${E}) { w.out(1) } else { w.out(2) }`)
place('if-test-unbraced', { thisOk: true }, E => `if (${E}) w.out(1); else w.out(2);`)
place('if-cons-unbraced', { thisOk: true }, E => `if (w.b1) w.out(${E}); else w.out(0);`)
place('if-alt-unbraced', { thisOk: true }, E => `if (w.b2) w.out(0); else w.out(${E});`)
place('if-alt-braced', { thisOk: true }, E => `if (w.b2) { w.out(0) } else { w.out(${E}) }`)
place('else-if-test', { thisOk: true }, E => `if (w.b2) w.out(0); else if (${E}) w.out(1);`)
place('else-if-cons', { thisOk: true }, E => `if (w.b2) { w.out(0) } else if (w.b1) w.out(${E});`)
place('else-if-else', { thisOk: true }, E => `if (w.b2) { w.out(0) } else if (w.b4) { w.out(1) } else w.out(${E});`)
place('for-init', { thisOk: true }, E => `for (let i = 0, r = ${E}; i < 1; i++) { w.out(r) }`)
place('for-test', { thisOk: true }, E => `for (let i = 0; i < 2 && (${E}); i++) { w.out(i) }`)
place('for-update', { thisOk: true }, E => `for (let i = 0; i < 2; i++, w.out(${E})) { w.out(i) }`)
place('for-body-unbraced', { thisOk: true }, E => `for (let i = 0; i < 2; i++) w.out(${E});`)
place('for-body-braced', { thisOk: true }, E => `for (let i = 0; i < 2; i++) { w.out(${E}) }`)
place('for-in-head', { thisOk: true }, E => `for (const k in [${E}]) { w.out(k) }`)
place('for-of-head', { thisOk: true }, E => `for (const v of [${E}]) { w.out(v) }`)
place('for-of-body-unbraced', { thisOk: true }, E => `for (const v of w.arr1) w.out(${E});`)
place('while-test', { thisOk: true }, E => `let c = 0; while (c++ < 2 && (${E})) { w.out(c) }`)
place('while-body-unbraced', { thisOk: true }, E => `let c = 0; while (c++ < 2) w.out(${E});`)
place('do-while-test', { thisOk: true }, E => `let c = 0; do { w.out(c) } while (c++ < 1 && (${E}))`)
place('do-body-unbraced', { thisOk: true }, E => `let c = 0; do w.out(${E}); while (c++ < 1)`)
place('switch-discriminant', { thisOk: true }, E => `switch (${E}) { default: w.out(1) }`)
place('switch-case-test', { thisOk: true }, E => `switch (w.s1) { case ${E}: w.out(1); break; default: w.out(2) }`)
place('switch-case-body', { thisOk: true }, E => `switch (1) { case 1: w.out(${E}); break; default: w.out(0) }`)
place('try-body', { thisOk: true }, E => `try { w.out(${E}) } catch (e) { w.out(e) } finally { w.out(9) }`)
place('catch-body', { thisOk: true }, E => `try { w.fthrow1() } catch (e) { w.out(${E}) }`)
place('finally-body', { thisOk: true }, E => `try { w.out(0) } finally { w.out(${E}) }`)
place('catch-param-default', { thisOk: true }, E => `try { throw {} } catch ({ x = ${E} }) { w.out(x) }`)
place('labeled-stmt', { thisOk: true }, E => `lbl: w.out(${E});`)
place('labeled-block', { thisOk: true }, E => `lbl: { w.out(${E}); break lbl; }`)
place('nested-blocks', { thisOk: true }, E => `{ { w.out(0); { w.out(${E}) } } }`)
place('with-body', { thisOk: true, sloppy: true }, E => `with (w.scope1) { w.out(${E}) }`)
place('call-arg', { thisOk: true }, E => `w.out(w.id1(${E}));`)
place('new-arg', { thisOk: true }, E => `w.out(new w.C1(${E}));`)
place('array-elem', { thisOk: true }, E => `w.out([w.s1, ${E}, w.s2]);`)
place('object-value', { thisOk: true }, E => `w.out({ k: ${E} });`)
place('object-computed-key', { thisOk: true }, E => `w.out({ [${E}]: 1 });`)
place('array-spread', { thisOk: true }, E => `w.out([...[${E}]]);`)
place('cond-test', { thisOk: true }, E => `w.out((${E}) ? w.s1 : w.s2);`)
place('cond-cons', { thisOk: true }, E => `w.out(w.b1 ? ${E} : w.s2);`)
place('cond-alt', { thisOk: true }, E => `w.out(w.b2 ? w.s1 : ${E});`)
place('logical-and-rhs', { thisOk: true }, E => `w.out(w.b1 && (${E}));`)
place('logical-or-rhs', { thisOk: true }, E => `w.out(w.n1 || (${E}));`)
place('nullish-rhs', { thisOk: true }, E => `w.out(w.n1 ?? (${E}));`)
place('nullish-rhs-skipped', { thisOk: true }, E => `w.out(w.s1 ?? (${E}));`)
place('comma', { thisOk: true }, E => `w.out((w.f1(), ${E}));`)
place('assign-rhs', { thisOk: true }, E => `let r; r = ${E}; w.out(r);`)
place('assign-computed-lhs', { thisOk: true }, E => `const ob = {}; ob[${E}] = w.s1; w.out(ob);`)
place('addassign-computed-lhs', { thisOk: true }, E => `const ob = {}; ob[${E}] += w.s1; w.out(ob);`)
place('addassign-object-lhs', { thisOk: true }, E => `w.id1({ k: ${E} }).p += w.s1;`)
place('addassign-call-arg-in-lhs', { thisOk: true }, E => `w.fobj1(${E}).p += w.s2;`)
place('addassign-lhs-and-rhs', { thisOk: true }, E => `const ob = {}; ob[${E}] += w.s1 + w.f1(); w.out(ob);`)
place('subassign-computed-lhs', { thisOk: true }, E => `const ob = {}; ob[${E}] -= w.i1; w.out(ob);`)
place('nullish-assign-computed-lhs', { thisOk: true }, E => `const ob = {}; ob[${E}] ??= w.s1; w.out(ob);`)
place('update-computed-target', { thisOk: true }, E => `const ob = {}; ob[${E}]++; w.out(ob);`)
place('destructuring-assign-target', { thisOk: true }, E => `const ob = {}; [ob[${E}]] = [w.s1]; w.out(ob);`)
place('for-of-member-target', { thisOk: true }, E => `const ob = {}; for (ob[${E}] of [w.s1]) w.out(ob);`)
place('addassign-rhs-of-addassign', { thisOk: true }, E => `let r = w.s1, q = w.s2; r += q += ${E}; w.out(r + q);`)
place('world-member-assign-rhs', { thisOk: true }, E => `w.o1.p = ${E};`)
place('tpl-substitution', { thisOk: true }, E => `w.out(\`x\${${E}}y\`);`)
place('tagged-tpl-arg', { thisOk: true }, E => `w.out(w.tag1\`x\${${E}}y\`);`)
place('typeof-operand', { thisOk: true }, E => `w.out(typeof (${E}));`)
place('void-operand', { thisOk: true }, E => `w.out(void (${E}));`)
place('not-operand', { thisOk: true }, E => `w.out(!(${E}));`)
place('delete-operand', { thisOk: true, excl: 'delete' }, E => `w.out(delete w.o1[${E}]);`)
place('computed-member-key', { thisOk: true }, E => `w.out(w.o1[${E}]);`)
place('computed-member-key-chain', { thisOk: true }, E => `w.out(w.o1[${E}].p.q);`)
place('arrow-returning-computed-member', { thisOk: true }, E => `const af = (k) => w.o1[${E}]; w.out(af(w.s1));`)
place('arrow-returning-member-of-call', { thisOk: true }, E => `const af = (k) => w.id1(${E}).length; w.out(af(w.s1));`)
place('arrow-returning-object-literal', { thisOk: true }, E => `const af = () => ({ k: ${E} }); w.out(af());`)
place('arrow-returning-sequence', { thisOk: true }, E => `const af = () => (w.f1(), ${E}); w.out(af());`)
place('arrow-returning-conditional', { thisOk: true }, E => `const af = (c) => c ? ${E} : w.s2; w.out(af(w.b1));`)
place('arrow-returning-arrow-in-call-arg', { thisOk: true }, E => `w.out(w.cb1((x) => (y) => ${E})(w.s1));`)
place('member-of', { thisOk: true }, E => `w.out((${E}).length);`)
place('optional-call-arg', { thisOk: true }, E => `w.out(w.o1?.f1(${E}));`)
place('yield-operand', {}, E => `function* g() { const r = yield ${E}; w.out(r) } const it = g(); w.out(it.next().value); w.out(it.next(w.s1).done);`)
place('yield-star-operand', {}, E => `function* g() { yield* [${E}] } for (const v of g()) w.out(v);`)
place('await-operand', { asyncMain: true }, E => `async function af() { const r = await (${E}); w.out(r); return r } return af();`)
place('fn-decl-body', {}, E => `function fn() { return ${E} } w.out(fn());`)
place('fn-expr-body', {}, E => `const fn = function () { return ${E} }; w.out(fn());`)
place('nested-fn-decls', {}, E => `function f1() { function f2() { return ${E} } return f2() } w.out(f1());`)
place('method-body', {}, E => `const ob = { m() { return ${E} } }; w.out(ob.m());`)
place('getter-body', {}, E => `const ob = { get p() { return ${E} } }; w.out(ob.p);`)
place('setter-body', {}, E => `const ob = { set p(v) { w.out(${E}) } }; ob.p = 1;`)
place('constructor-body', {}, E => `class K { constructor() { w.out(${E}) } } new K();`)
place('class-method-body', {}, E => `class K { m() { return ${E} } } w.out(new K().m());`)
place('class-static-method-body', {}, E => `class K { static m() { return ${E} } } w.out(K.m());`)
place('class-private-method-body', {}, E => `class K { #m() { return ${E} } run() { return this.#m() } } w.out(new K().run());`)
place('class-static-block', {}, E => `class K { static { w.out(${E}) } }`)
place('class-field-init', { kfShape: 'D7' }, E => `class K { p = ${E} } w.out(new K().p);`)
place('class-static-field-init', { kfShape: 'D7' }, E => `class K { static p = ${E} } w.out(K.p);`)
place('fn-default-param', { kfShape: 'D7' }, E => `function fn(x = ${E}) { return x } w.out(fn());`)
// a later default calls, in the middle of its own operation, a function created by an earlier default whose own default is instrumented
place('fn-later-default-calls-fn-of-earlier-default', { kfShape: 'D7' }, E => `function h(a1 = w.u1 || function (v, q = w.s7 + w.f8()) { return w.id1(v, q) }, a2 = w.f9() + a1(${E})) { return a2 } w.out(h());`)
place('fn-later-default-calls-arrow-of-earlier-default', { kfShape: 'D7' }, E => `function h(a1 = [(v, q) => w.id1(v, q), function (v, q = \`\${w.s7}:\${w.f8()}\`) { return w.id2(v, q) }], a2 = w.f9() + a1[1](${E}) + a1[0](w.s3)) { return a2 } w.out(h());`)
// an earlier default holds a class whose field initialiser is instrumented, a plain default in between, a later default that instantiates it mid-operation
place('fn-later-default-instantiates-class-of-earlier-default', { kfShape: 'D7' }, E => `function h(B = class { id = w.s7 + w.f8() }, st = w.f6(), inst = w.f9() + new B().id + (${E})) { return inst + st } w.out(h());`)
place('obj-setter-default-param', { kfShape: 'D7' }, E => `const ob = { set p(v = ${E}) { w.out(v) } }; w.out(w.f5() + (ob.p = undefined, w.s6));`)
place('class-setter-default-param', { kfShape: 'D7' }, E => `class K { set p(v = ${E}) { w.out(v) } } const k = new K(); w.out(w.f5() + (k.p = undefined, w.s6));`)
place('constructor-default-param', { kfShape: 'D7' }, E => `class K { constructor(v = ${E}) { this.v = v } } w.out(w.f5() + new K().v);`)
place('method-default-param', { kfShape: 'D7' }, E => `const ob = { m(x = ${E}) { return x } }; w.out(ob.m());`)
place('arrow-default-param', { thisOk: true, excl: 'arrow-default' }, E => `const af = (x = ${E}) => x; w.out(af());`)
place('arrow-expr-body', { thisOk: true }, E => `const af = () => ${E}; w.out(af());`)
place('arrow-block-body', { thisOk: true }, E => `const af = () => { return ${E} }; w.out(af());`)
place('arrow-expr-body-nested', { thisOk: true }, E => `const af = () => () => ${E}; w.out(af()());`)
place('iife', {}, E => `w.out((function () { return ${E} })());`)
place('closure-in-loop', { thisOk: true }, E => `const fs = []; for (let i = 0; i < 2; i++) fs.push(() => ${E}); for (const f of fs) w.out(f());`)
place('generator-body', {}, E => `function* g() { yield ${E}; yield w.s1 } for (const v of g()) w.out(v);`)
place('async-arrow-body', { thisOk: true, asyncMain: true }, E => `const af = async () => ${E}; return af().then(v => { w.out(v); return v });`)
place('async-arrow-await-expr-body', { thisOk: true, asyncMain: true }, E => `const af = async (x) => (await w.id1(x)) + (${E}); return af(w.s1);`)
place('async-arrow-await-in-call-arg', { thisOk: true, asyncMain: true }, E => `return Promise.all([w.s1, w.s2].map(async (u) => await w.id1(u) + (${E})));`)
place('async-fn-after-await', { asyncMain: true }, E => `async function af() { await w.s1; return ${E} } return af();`)
place('callback-reentrant', { thisOk: true }, E => `w.out(w.cb1((x) => ${E}));`)
place('object-method-in-arg', {}, E => `w.out(w.id1({ m() { return ${E} } }).m());`)
// outside any block / function body: documented exclusion (not instrumented), but must still behave
place('top-level-stmt', { top: true, thisOk: false }, E => `w.out(${E});`)
place('top-level-decl', { top: true }, E => `var r = ${E}; w.out(r);`)
place('top-level-if-unbraced', { top: true }, E => `if (w.b1) w.out(${E});`)
place('top-level-fn-body', { topFn: true }, E => `function tf() { return ${E} } w.out(tf());`)
place('top-level-arrow-expr', { topFn: true, thisOk: false, nodemand: true }, E => `var af = () => ${E}; w.out(af());`)
place('top-level-block', { topFn: true }, E => `{ w.out(${E}) }`)

// ---- program assembly ------------------------------------------------------------------------------
function build (pl, fm, opts = {}) {
  const F = new Fresh()
  const E = fm.f(F)
  const strict = !!opts.strict && !pl.sloppy && !fm.sloppy
  if (pl.sloppy || fm.sloppy) opts = Object.assign({}, opts, { module: false })
  const body = pl.p(E)
  const helpers = []
  if (F.needAlone) helpers.push('function aloneMethod(x, y, z) { return w.id9(x, y, z) }') // every argument reaches the world
  if (F.needTrimFn) helpers.push('function trim(x) { return w.id8(x) }')
  const pre = (F.locals.length ? 'let ' + F.locals.join(', ') + ';' : '')
  let code
  if (pl.top || pl.topFn) {
    // program-level code: `w` is a global of the realm
    code = (strict ? "'use strict';\n" : '') + [pre.replace(/^let /, 'var '), ...helpers, body].filter(Boolean).join('\n') + '\n'
    if (opts.module) code += 'export {}\n'
  } else {
    code = `${opts.module ? 'export default ' : ''}(function main(w) {${strict ? " 'use strict';" : ''}\n${[pre, ...helpers].filter(Boolean).join('\n')}\n${body}\n}).call(w.t, w)\n`
  }
  return {
    code,
    meta: {
      placement: pl.id,
      form: fm.id,
      strict,
      module: !!opts.module,
      top: !!pl.top,
      excl: pl.excl || null,
      kf: fm.kf || null,
      cfg: fm.cfg || null,
      kfShape: pl.kfShape || null,
      ops: fm.ops,
      instr: fm.instr && !pl.top && !pl.excl,
      demanded: fm.instr && !pl.top && !pl.excl && !fm.nodemand && !pl.nodemand,
      asyncMain: !!pl.asyncMain
    }
  }
}

function compatible (pl, fm) {
  if (fm.needs === 'this' && !pl.thisOk) return false
  if (fm.needs === 'this' && (pl.top || pl.topFn)) return false
  return true
}

// pairs that are witnesses of recorded known findings are only generated in one canonical placement
function isKnownShape (pl, fm) {
  if (fm.kf) return true
  return false
}
const CANONICAL_KF_PLACEMENT = 'return'
function knownPairs () {
  const out = []
  const ret = PLACEMENTS.find(p => p.id === CANONICAL_KF_PLACEMENT)
  for (const fm of FORMS) if (fm.kf) out.push([ret, fm])
  return out
}

// all compatible pairs
// debugging aid (never set by the registered commands): VERIF_ONLY_FORMS / VERIF_ONLY_PLACEMENTS = regex restricting the product
const ONLY_F = process.env.VERIF_ONLY_FORMS ? new RegExp(process.env.VERIF_ONLY_FORMS) : null
const ONLY_P = process.env.VERIF_ONLY_PLACEMENTS ? new RegExp(process.env.VERIF_ONLY_PLACEMENTS) : null
function allPairs () {
  const out = []
  for (const pl of PLACEMENTS) for (const fm of FORMS) if (compatible(pl, fm) && !isKnownShape(pl, fm) && (!ONLY_F || ONLY_F.test(fm.id)) && (!ONLY_P || ONLY_P.test(pl.id))) out.push([pl, fm])
  return out
}

// Latin-square slice: every placement and every form at least once; k forms per placement, rotated by seed
function slicePairs (seed, k) {
  const out = []
  const nF = FORMS.length
  const nP = PLACEMENTS.length
  const seen = new Set()
  const add = (pl, fm) => { const key = pl.id + '|' + fm.id; if (!seen.has(key) && compatible(pl, fm) && !isKnownShape(pl, fm)) { seen.add(key); out.push([pl, fm]) } }
  PLACEMENTS.forEach((pl, i) => { for (let j = 0; j < k; j++) add(pl, FORMS[(i * 7 + seed * 13 + j * 17) % nF]) })
  FORMS.forEach((fm, i) => { for (let j = 0; j < Math.max(1, Math.floor(k / 3)); j++) add(PLACEMENTS[(i * 5 + seed * 11 + j * 19) % nP], fm) })
  return out
}

function byIds (plId, fmId) { return [PLACEMENTS.find(p => p.id === plId), FORMS.find(f => f.id === fmId)] }

module.exports = { FORMS, PLACEMENTS, build, allPairs, slicePairs, knownPairs, isKnownShape, compatible, byIds, Fresh }
