'use strict'
// Client for rwharness (the real rewriter behind a request/response boundary, B1 in DESIGN.md).
const { spawnSync } = require('child_process')
const fs = require('fs')
const path = require('path')
const { VERIF } = require('./util')

const GUARD = 'datadog_dd_native_iast_rewriter_js_verif'
const HARNESS_DIR = path.join(VERIF, 'harness')
const BUILD_DIR = path.join(VERIF, '.build')

const PROFILES = {
  release: { args: ['build', '--release', '--offline'], rustflags: `--cfg ${GUARD}`, bin: 'release/release/rwharness', env: {} },
  debug: { args: ['build', '--offline'], rustflags: `--cfg ${GUARD}`, bin: 'debug/debug/rwharness', env: {} },
  asan: {
    args: ['build', '--release', '--offline', '--target', 'x86_64-unknown-linux-gnu'],
    rustflags: `--cfg ${GUARD} -Zsanitizer=address -Cforce-frame-pointers=yes`,
    bin: 'asan/x86_64-unknown-linux-gnu/release/rwharness',
    env: { RUSTC_BOOTSTRAP: '1' }
  }
}

function binPath (profile) { return path.join(BUILD_DIR, PROFILES[profile].bin) }

// (Re)builds the harness from /repo's current working tree. Returns {ok, log}.
function build (profile = 'release') {
  const p = PROFILES[profile]
  fs.mkdirSync(BUILD_DIR, { recursive: true })
  for (const f of ['Cargo.lock', 'tracer_logger.js']) {
    try { fs.copyFileSync(path.join('/repo', f), path.join(HARNESS_DIR, f)) } catch (e) { /* keep previous copy */ }
  }
  const env = Object.assign({}, process.env, p.env, {
    RUSTFLAGS: p.rustflags,
    CARGO_NET_OFFLINE: 'true',
    CARGO_TARGET_DIR: path.join(BUILD_DIR, profile)
  })
  const r = spawnSync('cargo', p.args, { cwd: HARNESS_DIR, env, encoding: 'utf8', maxBuffer: 1 << 28 })
  const ok = r.status === 0 && fs.existsSync(binPath(profile))
  return { ok, log: (r.stdout || '') + (r.stderr || '') }
}

class Harness {
  // opts: profile, wrapper: [cmd, ...args] placed before the binary (valgrind), env, batchTimeoutMs, perReqMs
  constructor (opts = {}) {
    this.profile = opts.profile || 'release'
    this.bin = binPath(this.profile)
    this.wrapper = opts.wrapper || null
    this.env = Object.assign({}, process.env, opts.env || {})
    this.baseTimeout = opts.batchTimeoutMs || 60000
    this.perReq = opts.perReqMs || 250
    this.maxTimeouts = opts.maxTimeouts
    this.stats = { processes: 0, requests: 0, aborts: 0, timeouts: 0 }
    this.lastStderr = ''
  }

  // Runs a batch; returns one response per request, in order. A process death marks the in-flight
  // request {abort:{..}}, a watchdog firing marks it {timeout:true}; the rest continues in a new process.
  run (requests) {
    const responses = new Array(requests.length)
    let start = 0
    const news = [] // 'new' ops already executed, replayed after a restart
    while (start < requests.length) {
      const pending = requests.slice(start)
      const lines = news.map(r => JSON.stringify(r)).concat(pending.map(r => JSON.stringify(r))).join('\n') + '\n'
      const timeout = this.baseTimeout + this.perReq * pending.length + Math.floor(lines.length / 2000)
      const cmd = this.wrapper ? this.wrapper[0] : this.bin
      const args = this.wrapper ? this.wrapper.slice(1).concat([this.bin]) : []
      this.stats.processes++
      const r = spawnSync(cmd, args, { input: lines, env: this.env, maxBuffer: 1 << 30, timeout, killSignal: 'SIGKILL' })
      this.lastStderr = r.stderr ? r.stderr.toString().slice(-6000) : ''
      this.lastStatus = r.status
      if (r.stderr && r.stderr.length) this.stderrAll = (this.stderrAll || '') + r.stderr.toString().slice(-20000)
      // (line by line: the whole response stream of a batch can exceed node's maximum string length)
      const out = []
      if (r.stdout && r.stdout.length) { let from = 0; const buf = r.stdout; while (from < buf.length) { let nl = buf.indexOf(10, from); if (nl < 0) nl = buf.length; if (nl > from) out.push(buf.toString('utf8', from, nl)); from = nl + 1 } }
      const got = out.slice(news.length)
      let n = 0
      for (; n < got.length && n < pending.length; n++) {
        let v
        try { v = JSON.parse(got[n]) } catch (e) { v = { harness_error: 'unparsable response: ' + got[n].slice(0, 200) } }
        responses[start + n] = v
        if (pending[n].op === 'new') news.push(pending[n])
      }
      this.stats.requests += n
      if (n === pending.length) break
      // process ended early: pending[n] was in flight
      const timedOut = r.error && r.error.code === 'ETIMEDOUT'
      // the process could not be started at all (binary missing, wrapper missing, out of resources): a defect of the
      // harness set-up, never a verdict on the code under test
      const spawnFailed = r.error && !timedOut && r.status === null && !r.signal
      if (spawnFailed) {
        for (let i = start + n; i < requests.length; i++) responses[i] = { harness_error: 'cannot start ' + cmd + ': ' + String(r.error.code || r.error) }
        return responses
      }
      if (timedOut) {
        this.stats.timeouts++
        responses[start + n] = { timeout: true, budget_ms: timeout }
        // a run that keeps timing out is abandoned: the remaining requests are not answered (harness error = inconclusive)
        if (this.maxTimeouts !== undefined && this.stats.timeouts > this.maxTimeouts) {
          for (let i = start + n + 1; i < requests.length; i++) responses[i] = { harness_error: 'run abandoned after ' + this.stats.timeouts + ' timeouts' }
          return responses
        }
      } else {
        this.stats.aborts++
        responses[start + n] = { abort: { signal: r.signal || null, status: r.status, error: r.error ? String(r.error.code || r.error) : null, stderr: this.lastStderr.slice(-1500) } }
      }
      if (pending[n].op === 'new') news.push(pending[n]) // state unknown; later requests will report unknown rewriter if it died
      start = start + n + 1
    }
    return responses
  }

  // convenience: one rewriter, one rewrite
  one (config, code, file, reader) {
    const rs = this.run([{ op: 'new', rw: 'r', config }, { op: 'rewrite', rw: 'r', code, file, reader }])
    return rs[1]
  }
}

module.exports = { Harness, build, binPath, GUARD, PROFILES }
