'use strict'
// C06 — injected temporaries are hygienic: declared, private, never clobbered while live; reserved names refused.
const A = require('../lib/astmon')
const SM = require('../lib/scopemon')
const { plan: structPlan, jobs: structJobs } = require('../lib/structwork')
const { rewriteJobs, kind } = require('../lib/pipeline')
const { differential } = require('../lib/diffexec')
const { compile } = require('../lib/world')
const { SETS } = require('../lib/cfgset')
const { Rng, hashStr, clip, chunk } = require('../lib/util')

// ---- re-entrant histories: a temporary is live while the same code runs again -----------------------
const E = ['w.s%d + w.f%d()', '`${w.s%d}|${w.f%d()}`', 'w.f%d().concat(w.s%d).trim()', '(w.s%d + w.f%d()).trim() + w.s%d', 'w.o%d?.s1.trim() + w.f%d()']
function inst (tpl, k) { let n = k * 10; return tpl.replace(/%d/g, () => String(++n)) }
const REENTRANT = [
  // recursion in the middle of an injected sequence
  (e1, e2) => `function rec(n) { if (n <= 0) return ${e1}; return w.s1 + rec(n - 1) + (${e2}) }\nreturn rec(3);`,
  // mutual recursion through two instrumented functions
  (e1, e2) => `function ping(n) { return n <= 0 ? ${e1} : w.f1() + pong(n - 1) + w.s2 }\nfunction pong(n) { return (${e2}) + ping(n - 1) }\nreturn ping(3);`,
  // the world calls back into the same closure while its temporaries are live
  (e1, e2) => `let depth = 0; function again(x) { depth++; return depth < 3 ? w.s1 + w.cb1(again) + (${e1}) : ${e2} }\nreturn again(w.s2);`,
  // closures created in a loop, invoked later in another order
  (e1, e2) => `const fs = []; for (let i = 0; i < 3; i++) fs.push((x) => (${e1}) + i + x + (${e2}));\nreturn fs[2](w.s1) + fs[0](fs[1](w.s2));`,
  // two generators of one function resumed alternately, suspended inside an injected sequence
  (e1, e2) => `function* gen(tag) { const got = (${e1}) + (yield tag + w.f1()) + (${e2}); return got + (yield got) }\nconst g1 = gen(w.s1), g2 = gen(w.s2); const out = [];\nout.push(g1.next().value); out.push(g2.next().value); out.push(g2.next(w.s3).value); out.push(g1.next(w.s4).value); out.push(g1.next(w.s5).value); out.push(g2.next(w.s6).value);\nreturn out.join('#');`,
  // a generator re-entered from a template substitution of another activation
  (e1, e2) => `function* gen(n) { yield \`\${w.s1}\${n > 0 ? [...gen(n - 1)].join() : ${e1}}\${${e2}}\` }\nreturn [...gen(2)].join('|');`,
  // async functions interleaved by the micro-task queue inside injected sequences
  (e1, e2) => `async function job(tag) { const r = tag + (await w.f1()) + (${e1}); return r + (await w.id1(${e2})) }\nreturn Promise.all([job(w.s1), job(w.s2), job(w.s3)]).then(a => a.join('&'));`,
  // getter / setter re-entrancy
  (e1, e2) => `let lvl = 0; const ob = { get p() { lvl++; return lvl < 3 ? w.s1 + this.p + (${e1}) : ${e2} } };\nreturn ob.p + ob.p;`,
  // method on instances, recursion through this
  (e1, e2) => `class K { constructor(n) { this.n = n } run() { return this.n <= 0 ? ${e1} : (${e2}) + new K(this.n - 1).run() + w.s1 } }\nreturn new K(2).run();`,
  // try/finally with re-entry from finally
  (e1, e2) => `let c = 0; function tf() { try { return (${e1}) + (c++ < 2 ? tf() : w.s1) } finally { w.out(${e2}) } }\nreturn tf();`,
  // nested blocks and labelled loops sharing a function activation
  (e1, e2) => `let acc = w.s1; outer: for (let i = 0; i < 2; i++) { for (let j = 0; j < 2; j++) { acc += (${e1}); if (j) continue outer; { acc += (${e2}) } } }\nreturn acc;`,
  // switch cases (no block) sharing the enclosing block's temporaries
  (e1, e2) => `function sw(k) { switch (k) { case 0: return ${e1}; case 1: return (${e2}) + sw(0); default: return sw(1) + sw(0) } }\nreturn sw(2);`
]
// known finding D7: temporaries of parameter defaults / class fields live in the enclosing activation
const REENTRANT_KNOWN = [
  ['default-param-recursion', 'let a = 0; function b() { a++; if (a < 3) inner(); return w.s1 }\nfunction inner(x = a + b()) { w.out(x); return x }\nreturn inner();'],
  ['class-field-recursion', 'let d = 0; class K { p = w.s1 + (d++ < 2 ? new K().p : w.f1()) }\nreturn new K().p;']
]

// ---- collision sweep ----------------------------------------------------------------------------------
// (the last four spell reserved names with identifier escapes: same identifier, different source text)
const RES = ['__datadog_test_0', '__datadog_test_1', '__datadog_test_12', '__datadog_t\\u0065st_0', '\\u005f_datadog_test_1', '__d\\u{61}tadog_test_0', '__datadog_test_\\u0030']
const NEAR = ['__datadog_other_0', '__datadog_testx', '__datadog_test', '___datadog_test_0', '__datadog_TEST_0']
const COLLISION = [
  ['binding-same-block', n => `function f(a, b) { let ${n} = w.s1; const r = a + b(); return r + ${n} }\nreturn f(w.s2, w.f3);`],
  ['binding-outer-block-used-inside', n => `function f(a, b) { let ${n} = w.s1; { const r = a + b(); return r + ${n} } }\nreturn f(w.s2, w.f3);`],
  ['binding-outer-function-captured', n => `let ${n} = w.s1; function f(a, b) { const r = a + b(); return r + ${n} }\nreturn f(w.s2, w.f3);`],
  ['parameter-of-block-function', n => `{ function f(${n}, b) { const r = ${n} + b(); return r } w.out(f(w.s2, w.f3)) }`],
  ['parameter-of-function', n => `function f(${n}, b) { const r = ${n} + b(); return r }\nreturn f(w.s2, w.f3);`],
  ['arrow-parameter', n => `const f = (${n}, b) => ${n} + b();\nreturn f(w.s2, w.f3);`],
  ['arrow-parameter-block', n => `const f = (${n}, b) => { return ${n} + b() };\nreturn f(w.s2, w.f3);`],
  ['destructured-parameter', n => `function f({ ${n} }, b) { return ${n} + b() }\nreturn f({ ${n}: w.s2 }, w.f3);`],
  ['catch-parameter', n => `function f(a, b) { try { throw w.s1 } catch (${n}) { return a + b() + ${n} } }\nreturn f(w.s2, w.f3);`],
  ['free-reference', n => `function f(a, b) { const r = a + b(); return r + (typeof ${n}) }\nreturn f(w.s2, w.f3);`],
  ['reference-in-delete-operand', n => `function f(a, b, o) { let ${n} = 'k'; const r = a + b(); delete o[${n}]; return r + ${n} }\nreturn f(w.s2, w.f3, {});`],
  ['reference-in-literal-template', n => `function f(a, b) { let ${n} = w.s1; const r = a + b(); return \`\${1}\${${n}}\` + r }\nreturn f(w.s2, w.f3);`],
  ['label', n => `function f(a, b) { ${n}: for (;;) { const r = a + b(); break ${n} } return a + b() }\nreturn f(w.s2, w.f3);`],
  ['function-name', n => `function ${n}(a, b) { return a + b() }\nreturn ${n}(w.s2, w.f3);`],
  ['inner-function-name', n => `function f(a, b) { function ${n}() { return w.s1 } const r = a + b(); return r + ${n}() }\nreturn f(w.s2, w.f3);`],
  ['class-name', n => `function f(a, b) { class ${n} { static v = w.s1 } const r = a + b(); return r + ${n}.v }\nreturn f(w.s2, w.f3);`],
  ['var-hoisted-from-inner-block', n => `function f(a, b) { const r = a + b(); { var ${n} = w.s1 } return r + ${n} }\nreturn f(w.s2, w.f3);`],
  ['closure-capture-later', n => `function f(a, b) { let ${n} = w.s1; const g = () => ${n}; const r = a + b(); return r + g() }\nreturn f(w.s2, w.f3);`],
  ['import-like-global', n => `globalThis.${n} = w.s1; function f(a, b) { const r = a + b(); return r + ${n} }\nreturn f(w.s2, w.f3);`],
  ['property-name-only', n => `function f(a, b) { const o = { ${n}: w.s1 }; const r = a + b(); return r + o.${n} }\nreturn f(w.s2, w.f3);`],
  ['string-only', n => `function f(a, b) { const r = a + b(); return r + '${n}' }\nreturn f(w.s2, w.f3);`],
  ['unused-arrow-parameter-block-body', n => `const f = (${n}, a, b) => { return a + b() };\nreturn f(w.s1, w.s2, w.f3);`],
  ['unused-arrow-parameter-expr-body', n => `const f = (${n}, a, b) => a + b();\nreturn f(w.s1, w.s2, w.f3);`],
  ['arrow-parameter-only-in-delete', n => `const f = (${n}, a, b, o) => { const r = a + b(); delete o[${n}]; return r + Object.keys(o).join() };\nreturn f('k', w.s2, w.f3, { k: 1, undefined: 2 });`],
  ['global-only-in-delete', n => `globalThis.${n} = 'k'; function f(a, b, o) { const r = a + b(); delete o[${n}]; return r + Object.keys(o).join() }\nreturn f(w.s2, w.f3, { k: 1, undefined: 2 });`],
  ['global-only-in-literal-template', n => `globalThis.${n} = w.s1; function f(a, b) { const r = a + b(); return \`\${1}\${${n}}\` + r }\nreturn f(w.s2, w.f3);`],
  ['uninstrumented-file', n => `function f(a) { let ${n} = w.s1; return ${n} }\nreturn f(1);`]
]

function wrap (body, strict) { return `(function main(w) {${strict ? " 'use strict';" : ''}\n${body}\n}).call(w.t, w)\n` }

function structural (job, resp, prefix) {
  let b
  try { b = A.parse(resp.ok.raw.code, { module: !!job.meta.module }) } catch (e) { const p = A.parseAuto(resp.ok.raw.code); if (p.error) return { skipped: 'output-unparsable' }; b = p.ast }
  const E2 = A.makeEraser(prefix)
  return SM.analyze(b, E2.tempRe)
}

async function check (job, resp, prefix, opts = {}) {
  const violations = []
  const k = kind(resp)
  const out = { k }
  const base = job.meta.reentrant !== undefined ? `reentrant:${job.meta.reentrant}` : job.meta.collision ? `collision:${job.meta.collision}:${job.meta.nameKind}` : job.meta.placement ? `catalog:${job.meta.placement}:${job.meta.form}` : job.meta.kind === 'corpus' ? 'corpus' : 'random'
  const push = (kindS, what, extra) => violations.push({ sig: `${base}:${kindS}`, what, witness: Object.assign({ code: job.code, config: job.config, cfgName: job.cfgName, meta: job.meta }, extra || {}) })
  if (job.meta.collision) {
    // refused (error) and not-modified are fine; a modified output must compile and behave like the input
    out.collisionOutcome = k === 'err' ? (/Variable name duplicated/.test(resp.err) ? 'refused' : 'other-error') : k
    if (k === 'err' && !/Variable name duplicated/.test(resp.err)) { if (!compile(job.code, false)) push('unexpected-error', `valid input rejected: ${clip(resp.err, 200)}`); return { out, violations } }
    if (k !== 'ok-modified') return { out, violations }
    if (job.meta.mustRefuse === false && false) return { out, violations }
  }
  if (k !== 'ok-modified') return { out, violations }
  // user identifiers of collision cases look like temporaries: the structural monitor only runs on the other workloads
  const st = job.meta.collision ? { skipped: 'collision-case' } : structural(job, resp, prefix)
  out.struct = st
  if (st.problems) {
    const seen = new Set()
    for (const p of st.problems) { if (seen.has(p.kind)) continue; seen.add(p.kind); if (p.kind === 'temp-declared-in-other-activation') { violations.push({ sig: `temp-declared-in-other-activation:${p.boundary}`, what: `temporary ${p.name} is declared in the enclosing activation but used across ${p.boundary} (${base})`, witness: { code: job.code, config: job.config, cfgName: job.cfgName, meta: job.meta, problem: p } }); continue } push(p.kind + (p.boundary ? ':' + p.boundary : ''), `temporary ${p.name}: ${p.kind}${p.boundary ? ' (used across ' + p.boundary + ')' : ''}`, { problem: p }) }
  }
  if (opts.exec) {
    const isModule = !!job.meta.module
    if (!compile(job.code, isModule)) {
      const ce = compile(resp.ok.content, isModule)
      if (ce) push('output-does-not-compile', `V8 rejects the output: ${ce}`)
      else {
        const d = await differential(job.code, resp.ok.content, { module: isModule, faults: opts.faults || 0, hooks: ['identity', 'none'], rng: opts.rng })
        out.exec = d
        if (d.divergences.length) { const dv = d.divergences[0]; push('diverges', `output diverges from input (${dv.diff.kind}, hooks=${dv.hooks}, faultAt=${dv.faultAt}): ${clip(String(dv.diff.input), 100)} vs ${clip(String(dv.diff.output), 100)}`, { divergence: dv }) }
      }
    } else out.skipped = 'input-invalid'
  }
  return { out, violations }
}

module.exports = {
  id: 'C06',
  level: 'exploration',
  rule: 'structural monitor on every output (corpus, catalogue, random, re-entrant and collision programs): each use of an injected temporary resolves to an injected let in an enclosing block without crossing a function/parameter/class-field boundary (same activation), is dominated by a write in an enclosing injected sequence, and no nested sequence reassigns a temporary between its write and its last read. Dynamic monitor: 12 re-entrancy templates (recursion, mutual recursion, world callback re-entry, closures invoked later, generators resumed alternately, nested generators, interleaved async jobs, getters, instance recursion, finally re-entry, labelled loops, switch) x 5x5 instrumented expressions are executed differentially with faults. Collision sweep: 22 placements of a reserved-prefix identifier (bindings, parameters incl. arrow/destructured/catch, references incl. excluded regions, labels, function/class names, hoisted var, captured closure, global) x 3 reserved names x 5 near-miss names: the rewrite must be refused, or leave the file unmodified, or produce code that V8 compiles and that runs like the input. distinct_nontrivial = distinct outputs analysed that contain >= 1 injected temporary, plus decided collision cases. Workload additions: the syntax zoo (49 programs x LF/CRLF/CR line endings), and operation splicing - zoo programs, every seventh catalogue program and every fifth random program also run with further enabled operations grafted onto randomly chosen sub-expressions in a value-preserving way ((x is a primitive ? OP(x) : 0, x)).',
  assumptions: ['temporaries of parameter defaults and class fields living in the enclosing activation are known finding D7', 'the collision oracle accepts refusal even where no clash is possible (refusing more is safe)'],
  plan (ctx) {
    const shards = []
    const combos = []
    for (let t = 0; t < REENTRANT.length; t++) for (let i = 0; i < E.length; i++) for (let j = 0; j < E.length; j++) combos.push([t, i, j])
    const rng = new Rng(ctx.seed, 'c06plan')
    const pick = ctx.tier === 'thorough' ? combos : rng.sample(combos, 300)
    for (const c of chunk(pick, 30)) shards.push({ kind: 'reentrant', combos: c })
    shards.push({ kind: 'reentrant-known' })
    shards.push({ kind: 'collision' })
    for (const s of structPlan(ctx, { quickCorpus: 250, exec: { quickRandom: 2000, quickFormsPerPlacement: 8, thoroughRandom: 30000 } })) shards.push(s)
    return shards
  },
  minEvaluations () { return 300 },
  async runShard (spec, ctx) {
    let js
    let exec = false
    const cfgNames = ['FULL', 'RENAMED', 'NO_PREFIX_OPTION', 'COMMENTS']
    if (spec.kind === 'reentrant') {
      exec = true
      js = spec.combos.map(([t, i, j], n) => { const cn = cfgNames[n % 4]; return { code: wrap(REENTRANT[t](inst(E[i], 1), inst(E[j], 2)), n % 3 === 0), meta: { reentrant: t, e1: i, e2: j, asyncMain: t === 6 }, config: SETS[cn], cfgKey: cn, cfgName: cn } })
    } else if (spec.kind === 'reentrant-known') {
      exec = true
      js = REENTRANT_KNOWN.map(([name, body]) => ({ code: wrap(body, false), meta: { reentrant: name, known: true }, config: SETS.FULL, cfgKey: 'FULL', cfgName: 'FULL' }))
    } else if (spec.kind === 'collision') {
      exec = true
      js = []
      for (const [name, tpl] of COLLISION) {
        for (const n of RES) js.push({ code: wrap(tpl(n), false), meta: { collision: name, nameKind: 'reserved', name: n }, config: SETS.FULL, cfgKey: 'FULL', cfgName: 'FULL' })
        for (const n of NEAR) js.push({ code: wrap(tpl(n), false), meta: { collision: name, nameKind: 'near-miss', name: n }, config: SETS.FULL, cfgKey: 'FULL', cfgName: 'FULL' })
      }
      // program-level variants (no enclosing function): parameters of top-level functions are outside any block
      for (const n of RES) {
        js.push({ code: `function f(${n}, b) { return ${n} + b() }\nw.out(f(w.s2, w.f3))\n`, meta: { collision: 'top-level-function-parameter', nameKind: 'reserved', name: n }, config: SETS.FULL, cfgKey: 'FULL', cfgName: 'FULL' })
        js.push({ code: `var ${n} = w.s1\nfunction f(a, b) { return a + b() + ${n} }\nw.out(f(w.s2, w.f3))\n`, meta: { collision: 'top-level-var', nameKind: 'reserved', name: n }, config: SETS.FULL, cfgKey: 'FULL', cfgName: 'FULL' })
        js.push({ code: `function f(${n}, a, b) { return a + b() }\nw.out(f(w.s1, w.s2, w.f3))\n`, meta: { collision: 'unused-top-level-function-parameter', nameKind: 'reserved', name: n }, config: SETS.FULL, cfgKey: 'FULL', cfgName: 'FULL' })
        js.push({ code: `function f(${n}, a, b, o) { const r = a + b(); delete o[${n}]; return r + Object.keys(o).join() }\nw.out(f('k', w.s2, w.f3, { k: 1, undefined: 2 }))\n`, meta: { collision: 'top-level-function-parameter-only-in-delete', nameKind: 'reserved', name: n }, config: SETS.FULL, cfgKey: 'FULL', cfgName: 'FULL' })
        js.push({ code: `function f(${n}, a, b) { const r = a + b(); return \`\${1}\${${n}}\` + r }\nw.out(f(w.s1, w.s2, w.f3))\n`, meta: { collision: 'top-level-function-parameter-only-in-literal-template', nameKind: 'reserved', name: n }, config: SETS.FULL, cfgKey: 'FULL', cfgName: 'FULL' })
        js.push({ code: `const f = (${n}, b) => ${n} + b()\nw.out(f(w.s2, w.f3))\n`, meta: { collision: 'top-level-arrow-parameter', nameKind: 'reserved', name: n }, config: SETS.FULL, cfgKey: 'FULL', cfgName: 'FULL' })
      }
    } else { js = structJobs(spec, ctx); exec = false }
    const { responses, prefixes } = rewriteJobs(js)
    const rep = { evaluations: 0, distinct: [], violations: [], inconclusive: [], samples: [], counters: {}, sets: { collision_outcomes: [] } }
    const bump = (k, n = 1) => { rep.counters[k] = (rep.counters[k] || 0) + n }
    const rng = new Rng(ctx.seed, 'c06f', JSON.stringify(spec).length)
    for (let i = 0; i < js.length; i++) {
      const { out, violations } = await check(js[i], responses[i], prefixes[i], { exec, faults: ctx.tier === 'thorough' ? 'all' : 8, rng })
      bump('status:' + out.k)
      if (['abort', 'timeout', 'harness'].includes(out.k)) { rep.inconclusive.push({ reason: 'harness-' + out.k, detail: JSON.stringify(js[i].meta).slice(0, 80) }); continue }
      if (js[i].meta.collision) { rep.sets.collision_outcomes.push(`${js[i].meta.collision}/${js[i].meta.nameKind}=${out.collisionOutcome}`); rep.evaluations++; rep.distinct.push(hashStr(js[i].code)) }
      if (out.k === 'panic') rep.violations.push({ sig: 'panic', what: JSON.stringify(responses[i].panic), witness: { code: js[i].code, config: js[i].config, meta: js[i].meta } })
      if (out.struct && !out.struct.skipped) {
        if (!js[i].meta.collision) rep.evaluations++
        bump('temporary_uses_resolved', out.struct.uses); bump('injected_lets', out.struct.lets); bump('injected_sequences_checked', out.struct.seqs)
        if (out.struct.uses > 0 && !js[i].meta.collision) rep.distinct.push(hashStr(js[i].code + js[i].cfgName))
      }
      if (out.exec) { bump('programs_executed'); bump('runs', out.exec.runs); bump('world_events', out.exec.events) }
      if (rep.samples.length < 2 && out.exec && js[i].code.length < 900) rep.samples.push({ input: js[i].code, config: js[i].cfgName, runs: out.exec.runs, events: out.exec.events, temporaries: out.struct && out.struct.uses })
      for (const v of violations) rep.violations.push(v)
    }
    return rep
  },
  async replay (w) {
    const job = { code: w.code, meta: w.meta, config: w.config, cfgName: w.cfgName }
    const { responses, prefixes } = rewriteJobs([Object.assign({ cfgKey: 'replay' }, job)])
    return { violations: (await check(job, responses[0], prefixes[0], { exec: !!(w.meta.reentrant !== undefined || w.meta.collision), faults: 'all', rng: new Rng(1) })).violations }
  },
  COLLISION,
  RES,
  NEAR,
  wrapCollision: wrap
}
