'use strict'
// C10 — chained source map is the exact composition; trailer/comment handling is safe.
// Fault enumeration over reader outcomes x reference kinds x {chain, comments}, plus random original maps.
const A = require('../lib/astmon')
const S = require('../lib/smap')
const acorn = require('../../vendor/acorn.js')
const { rewriteJobs, kind } = require('../lib/pipeline')
const { cfg, STRING_METHODS } = require('../lib/configs')
const { Rng, hashStr, clip } = require('../lib/util')

const b64 = s => Buffer.from(s).toString('base64')

// the "transpiled" file that gets rewritten; its string/regex/template contents look like sourceMappingURL comments
function genInput (rng, url) {
  const look = [url, 'other.map', 'x', '']
  const u = () => rng.pick(look)
  const L = []
  L.push('function generated(a, b) {')
  L.push(`  const s1 = "# sourceMappingURL=${u()}", s2 = '//# sourceMappingURL=${u()}' + a;`)
  L.push(`  const r1 = /# sourceMappingURL=${u().replace(/[^\w ]/g, '.')}/, t1 = \`# sourceMappingURL=${u()} \${a}\`;`)
  L.push(`  let acc = a + b.trim() + s1; /* # sourceMappingURL=${u()} (not last) */`)
  L.push('  acc += `${acc}-${b}`.concat(s2, r1.source, t1); // # sourceMappingURLx=nope')
  for (let i = 0, n = rng.int(6); i < n; i++) L.push(`  acc += a.slice(${i}) + ${JSON.stringify('line ' + i + ' # sourceMappingURL=' + u())};`)
  L.push('  return acc;')
  L.push('}')
  // ordinary comments and look-alikes at statement level (the original map is generated per line afterwards, so lines may be inserted freely)
  const extra = ['// plain line comment', '/* plain block comment */', '/** @param {string} a # sourceMappingURL=doc.map */', '// sourceMappingURL=nohash.map', '//@ sourceMappingURL=legacy.map', `//# sourceMappingURL=${u()} `, '/*#sourceMappingURL=nospace.map*/', '// #  sourceMappingURL=two-spaces.map', '//# sourcemappingurl=lowercase.map', '/* multi\n line # sourceMappingURL=inner.map\n*/']
  for (let i = 0, n = rng.int(5); i < n; i++) {
    const at = rng.pick([0, 1, 4, 5, L.length - 2, L.length - 1, L.length])
    const cmt = rng.pick(extra)
    if (rng.bool(0.5) || at === 0 || at >= L.length) L.splice(Math.min(at, L.length), 0, cmt)
    else if (!L[at].includes('//')) L[at] = L[at] + ' ' + cmt
  }
  return L
}

function genOriginalMap (rng, inputLines) {
  let nSources = rng.range(1, 3)
  const sources = Array.from({ length: nSources }, (_, i) => rng.pick(['orig', 'src/orig', '../lib/orig', 'a b', 'src/ñandú-é', 'src/𠮷野家-😀']) + i + '.ts')
  const names = rng.bool(0.6) ? rng.shuffle(['alpha', 'beta', 'gamma', 'ñame', '𝒳name', '名前']).slice(0, rng.range(1, 4)) : []
  // bundlers that concatenate maps do not de-duplicate: the same string may sit in several slots, and tokens refer to slots
  if (rng.bool(0.3)) { sources.splice(rng.int(nSources), 0, rng.pick(sources)); nSources++ }
  if (names.length && rng.bool(0.3)) names.splice(rng.int(names.length), 0, rng.pick(names))
  const tokens = []
  const layout = rng.int(4) // 0 dense, 1 sparse lines, 2 one token per line, 3 very sparse
  for (let line = 0; line < inputLines.length; line++) {
    if (layout === 1 && rng.bool(0.5)) continue
    if (layout === 3 && rng.bool(0.85)) continue
    const len = inputLines[line].length
    const n = layout === 2 ? 1 : rng.range(1, 8)
    const cols = new Set()
    for (let i = 0; i < n; i++) cols.add(layout === 2 ? 0 : rng.int(len + 1))
    for (const c of cols) {
      const t = { genLine: line, genCol: c }
      if (!rng.bool(0.06)) { t.src = rng.int(nSources); t.srcLine = rng.int(500); t.srcCol = rng.int(120); if (names.length && rng.bool(0.3)) t.name = rng.int(names.length) }
      tokens.push(t)
    }
  }
  if (rng.bool(0.4) && nSources > 1) { let k = 0; for (const t of tokens) { if (t.src !== undefined && k++ < 3) t.src = nSources - 1 } }
  const map = { version: 3, file: 'gen.js', sources, names, mappings: S.encodeMappings(tokens) }
  if (rng.bool(0.35)) map.sourceRoot = rng.pick(['', 'root', 'root/', '/abs/root', 'http://h/p'])
  // sourcesContent: absent, all null, or real text for some sources (bundlers embed the sources)
  if (rng.bool(0.45)) map.sourcesContent = rng.bool(0.4) ? sources.map(() => null) : sources.map((x, i) => rng.bool(0.7) ? `// content of ${x}\nexport const v${i} = ${i}\n` : null)
  return { map, tokens }
}

const REF_KINDS = ['inline', 'inline-charset', 'relative', 'relative-subfolder', 'absolute', 'none', 'missing', 'perm', 'dir', 'midread', 'bad-base64', 'bad-json', 'bad-vlq', 'index-map', 'empty-file', 'oversized', 'two-comments', 'block-comment', 'comment-not-last']

function genCase (rng, refKind, chain, comments) {
  const file = '/srv/app/dist/gen.js'
  // characters that a URL decoder would touch but a file name simply contains: + % blank
  const relName = rng.pick(['gen.js.map', 'gen.js.map', 'gen+es5.js.map', 'gen%20v2.js.map', 'c++/gen.js.map'.replace('/', '_'), 'gen 100%.js.map'])
  let url = relName
  if (refKind === 'absolute') url = '/var/maps/gen.js.map'
  const lines = genInput(rng, url)
  const { map, tokens } = genOriginalMap(rng, lines)
  const mapText = JSON.stringify(map)
  const files = {}
  let usable = true
  let trailer
  let mapPath = null
  const relPath = '/srv/app/dist/' + relName
  switch (refKind) {
    case 'inline': url = 'data:application/json;base64,' + b64(mapText); trailer = `//# sourceMappingURL=${url}`; break
    // the data URL form written by babel / convert-source-map / webpack's inline devtool: a charset parameter before the encoding
    case 'inline-charset': url = 'data:application/json;' + rng.pick(['charset=utf-8', 'charset=UTF-8', 'charset=utf8']) + ';base64,' + b64(mapText); trailer = `//# sourceMappingURL=${url}`; break
    case 'relative': files[relPath] = { content: mapText }; trailer = `//# sourceMappingURL=${url}`; break
    case 'absolute': files[url] = { content: mapText }; trailer = `//# sourceMappingURL=${url}`; mapPath = url; break
    // the map lives in another folder than the file: its sources are relative to the MAP's folder
    case 'relative-subfolder': url = 'maps/' + relName; files['/srv/app/dist/' + url] = { content: mapText }; trailer = `//# sourceMappingURL=${url}`; mapPath = '/srv/app/dist/' + url; break
    case 'none': trailer = ''; usable = false; break
    case 'missing': trailer = `//# sourceMappingURL=${url}`; usable = false; break
    case 'perm': files[relPath] = { err: 'PermissionDenied' }; trailer = `//# sourceMappingURL=${url}`; usable = false; break
    case 'dir': files[relPath] = { err: 'IsADirectory' }; trailer = `//# sourceMappingURL=${url}`; usable = false; break
    case 'midread': files[relPath] = { content: mapText, fail_after: rng.int(mapText.length) }; trailer = `//# sourceMappingURL=${url}`; usable = false; break
    case 'bad-base64': url = 'data:application/json;base64,@@@' + b64(mapText); trailer = `//# sourceMappingURL=${url}`; usable = false; break
    case 'bad-json': files[relPath] = { content: mapText.slice(0, mapText.length - 5) }; trailer = `//# sourceMappingURL=${url}`; usable = false; break
    case 'bad-vlq': files[relPath] = { content: JSON.stringify(Object.assign({}, map, { mappings: 'AAAA,!!!!' })) }; trailer = `//# sourceMappingURL=${url}`; usable = false; break
    case 'index-map': files[relPath] = { content: JSON.stringify({ version: 3, sections: [{ offset: { line: 0, column: 0 }, map }] }) }; trailer = `//# sourceMappingURL=${url}`; usable = false; break
    case 'empty-file': files[relPath] = { content: '' }; trailer = `//# sourceMappingURL=${url}`; usable = false; break
    case 'oversized': files[relPath] = { size: 3000000 }; trailer = `//# sourceMappingURL=${url}`; usable = 'either'; break
    case 'two-comments': files[relPath] = { content: mapText }; files['/srv/app/dist/first.map'] = { content: JSON.stringify({ version: 3, sources: ['WRONG.ts'], names: [], mappings: 'AAAA' }) }; trailer = `//# sourceMappingURL=first.map\n//# sourceMappingURL=${url}`; break
    case 'block-comment': files[relPath] = { content: mapText }; trailer = `/*# sourceMappingURL=${url} */`; break
    case 'comment-not-last': files[relPath] = { content: mapText }; trailer = `//# sourceMappingURL=${url}\nvar afterwards = 1;`; usable = 'either'; break // a comment followed by more code: the statement does not say whether it counts
  }
  const code = lines.join('\n') + '\n' + trailer + (rng.bool() ? '\n' : '')
  const config = cfg({ chain, comments, methods: STRING_METHODS, verbosity: 'OFF' })
  return { code, file, reader: { files, parent: 'node' }, config, cfgKey: `c${chain}${comments}`, meta: { refKind, chain, comments, usable, url, mapPath, original: map, originalTokens: tokens.length } }
}

function tokenStream (code) {
  const out = []
  try {
    for (const t of acorn.tokenizer(code, { ecmaVersion: 'latest', sourceType: 'script', allowHashBang: true })) {
      if (t.type.label === 'string' || t.type.label === 'template') out.push(t.type.label + ':' + t.value)
      else if (t.type.label === 'regexp') out.push('regexp:' + t.value.pattern + '/' + t.value.flags)
      else if (t.value !== undefined) out.push(t.type.label + ':' + t.value)
      else out.push(t.type.label)
    }
  } catch (e) { out.push('TOKENIZE-ERROR ' + e.message) }
  return out
}

function commentsOf (code) {
  const out = []
  try { acorn.parse(code, { ecmaVersion: 'latest', sourceType: 'script', allowReturnOutsideFunction: true, onComment: (block, text, start, end) => out.push({ key: (block ? '/*' : '//') + text, text, end }) }) } catch (e) { return null }
  return out
}

// defuse / re-arm reference-like comments in place (same length)
const defuseText = x => x.replace(/sourceMappingURL=/g, 'sourceMappingURl=')
const refuse = x => x.replace(/sourceMappingURl=/g, 'sourceMappingURL=')
function defused (code) {
  let out = ''; let at = 0
  try { acorn.parse(code, { ecmaVersion: 'latest', sourceType: 'script', allowReturnOutsideFunction: true, onComment: (block, text, start, end) => { out += code.slice(at, start) + defuseText(code.slice(start, end)); at = end } }) } catch (e) { return null }
  return out + code.slice(at)
}

function applyRoot (map, idx) {
  const s = map.sources[idx]
  const outs = new Set([s])
  if (map.sourceRoot !== undefined && map.sourceRoot !== '') {
    const r = map.sourceRoot
    outs.add(r.replace(/\/+$/, '') + '/' + s)
    outs.add(r + s)
  }
  return outs
}

function check (c, resp, baseline) {
  const violations = []
  const k = kind(resp)
  const out = { k }
  const sigBase = `${c.meta.refKind}:chain=${c.meta.chain}:comments=${c.meta.comments}`
  const seen = new Set()
  const push = (kindS, what, extra) => { if (seen.has(kindS)) return; seen.add(kindS); violations.push({ sig: `${kindS}:${c.meta.refKind}`, what: `[${sigBase}] ${what}`, witness: Object.assign({ code: c.code, file: c.file, reader: c.reader, config: c.config, meta: c.meta }, extra || {}) }) }
  if (k === 'panic' || k === 'abort' || k === 'err') { push('no-result', `rewrite did not produce a result: ${clip(JSON.stringify(resp), 300)}`); return { out, violations } }
  if (k !== 'ok-modified') return { out, violations }
  const content = resp.ok.content
  const t = S.splitTrailer(content)
  if (t.error) { push('trailer', t.error); return { out, violations } }
  // exactly one inline trailer
  const count = (content.match(/\n\/\/# sourceMappingURL=data:application\/json;base64,/g) || []).length
  const inputInlineCount = (c.code.match(/\n\/\/# sourceMappingURL=data:application\/json;base64,/g) || []).length
  if (count - (c.meta.comments ? inputInlineCount : 0) > 1) push('two-trailers', `${count} inline trailers in the content`)
  let plain
  try { plain = JSON.parse(resp.ok.raw.map) } catch (e) { push('plain-map-json', 'raw rewrite map is not JSON'); return { out, violations } }
  const emitted = t.map
  const shouldChain = c.meta.chain && c.meta.usable === true
  out.chained = shouldChain
  if (!c.meta.chain || c.meta.usable === false) {
    if (t.mapText !== resp.ok.raw.map) push('plain-map-expected', `no usable original map / chaining off, but the emitted map is not the plain rewrite map (sources ${JSON.stringify(emitted.sources)})`)
  } else if (c.meta.usable === true) {
    // composition check, token by token
    let plainToks, emToks, origToks
    try { plainToks = S.decodeMappings(plain); emToks = S.decodeMappings(emitted); origToks = S.decodeMappings(c.meta.original) } catch (e) { push('undecodable', e.message); return { out, violations } }
    const orig = c.meta.original
    const origIdx = S.indexByGenLine(origToks)
    const origSorted = origToks.slice().sort((x, y) => x.genLine - y.genLine || x.genCol - y.genCol)
    const emAt = new Map()
    for (const e of emToks) emAt.set(e.genLine + ':' + e.genCol, e)
    const used = new Set()
    let composed = 0
    for (const p of plainToks) {
      if (p.src === undefined) continue
      const key = p.genLine + ':' + p.genCol
      const e = emAt.get(key)
      const o1 = S.lookupSameLine(origIdx, p.srcLine, p.srcCol)
      const o2 = S.lookupGlobal(origSorted, p.srcLine, p.srcCol)
      const matches = (o) => {
        if (!o) return !e
        if (!e) return false
        if (o.src === undefined) return e.src === undefined
        if (e.src === undefined) return false
        if (e.srcLine !== o.srcLine || e.srcCol !== o.srcCol) return false
        // compare what a consumer resolves: sources with the map's own sourceRoot applied (once)
        const want = applyRoot(orig, o.src)
        const got = applyRoot(emitted, e.src)
        if (emitted.sourceRoot) got.delete(emitted.sources[e.src]) // a consumer does apply a non-empty root
        let hit = false
        for (const g of got) if (want.has(g)) hit = true
        if (!hit) return false
        const on = o.name === undefined ? undefined : orig.names[o.name]
        const en = e.name === undefined ? undefined : (emitted.names || [])[e.name]
        return on === en
      }
      if (!(matches(o1) || matches(o2))) {
        const d = (o) => o ? (o.src === undefined ? 'token without source' : `${orig.sources[o.src]}:${o.srcLine}:${o.srcCol}${o.name !== undefined ? ' name ' + orig.names[o.name] : ''}`) : 'no token'
        const de = e ? (e.src === undefined ? 'token without source' : `${emitted.sourceRoot ? '[sourceRoot ' + emitted.sourceRoot + '] ' : ''}${emitted.sources[e.src]}:${e.srcLine}:${e.srcCol}${e.name !== undefined ? ' name ' + (emitted.names || [])[e.name] : ''}`) : 'no entry'
        push('not-composition', `generated ${key}: rewrite map says original ${p.srcLine}:${p.srcCol}; looking that up in the original map gives ${d(o1)}${o2 !== o1 ? ' (or ' + d(o2) + ' across lines)' : ''}, but the emitted map has ${de}`, { generated: key })
        break
      }
      composed++
      if (e) used.add(key)
    }
    out.composed = composed
    // a source is named relative to the folder of the map that names it: when the original map lives elsewhere than the
    // file (whose trailer now carries the chained map), the same string no longer names the same file
    if (c.meta.mapPath && !orig.sourceRoot && !emitted.sourceRoot) {
      const pathMod = require('path')
      const fileDir = pathMod.dirname(c.file); const mapDir = pathMod.dirname(c.meta.mapPath)
      for (const e of emToks) {
        if (e.src === undefined) continue
        const es = emitted.sources[e.src]
        if (pathMod.isAbsolute(es) || /^[a-z]+:/i.test(es)) continue
        // which original source is it: by position (same line/column as some original token naming a source of that name)
        const want = orig.sources.filter(o => !pathMod.isAbsolute(o) && !/^[a-z]+:/i.test(o)).map(o => pathMod.resolve(mapDir, o))
        const got = pathMod.resolve(fileDir, es)
        if (!want.includes(got)) { push('source-resolves-elsewhere', `the chained map names ${JSON.stringify(es)}, which from the file's folder is ${got}; the original map (${c.meta.mapPath}) names its sources relative to its own folder: ${JSON.stringify(want)}`); break }
      }
    }
    for (const e of emToks) if (!used.has(e.genLine + ':' + e.genCol)) { push('extra-entry', `emitted map has an entry at generated ${e.genLine}:${e.genCol} that no rewrite-map token accounts for`); break }
  } else if (c.meta.usable === 'either') {
    // oversized but well-formed map / comment followed by code: chained or plain are both acceptable; must not fail
    out.either = true
  }
  // Comment handling when comments are kept. Oracle = the same call on a baseline input in which every comment that could be read
  // as a reference is defused in place (same length, so every position, span and printer decision is identical): whatever the
  // printer does to comments (it drops or relocates some around injected code) it does to both, so the two outputs must carry the
  // same comments except for the one superseded reference. A comment counts as a possible reference under the lenient reading
  // the rewriter itself uses (trimmed text starts with `# sourceMappingURL=`); when the last of them is also the last thing in
  // the file it is the only one that may go, otherwise (reference followed by code, or look-alikes only) the statement is
  // silent and any single candidate may go.
  if (c.meta.comments && baseline) {
    const inC = commentsOf(c.code); const outC = commentsOf(t.code)
    const bt = kind(baseline) === 'ok-modified' ? S.splitTrailer(baseline.ok.content) : null
    const baseC = bt && !bt.error ? commentsOf(bt.code) : null
    if (inC && outC && baseC) {
      const isRef = x => x.text.trim().startsWith('# sourceMappingURL=')
      const cands = inC.filter(isRef)
      const lastCand = cands.length ? cands[cands.length - 1] : null
      const clearCut = lastCand && c.code.slice(lastCand.end).trim() === ''
      const bag = new Map()
      for (const x of outC) bag.set(x.key, (bag.get(x.key) || 0) + 1)
      const missing = []
      for (const x of baseC) { const k = refuse(x.key); if (bag.get(k)) bag.set(k, bag.get(k) - 1); else missing.push(k) }
      const extra = [...bag].filter(([, n]) => n > 0).map(([k]) => k)
      if (extra.length) push('comment-added', `comments are kept: the output has a comment ${JSON.stringify(clip(extra[0], 80))} that the same input with defused reference comments does not produce`)
      const candKeys = new Set(cands.map(x => x.key))
      const bad = missing.filter(k => clearCut ? k !== lastCand.key : !candKeys.has(k))
      if (bad.length || missing.length > 1) push('comment-lost', `comments are kept, but the input comment ${JSON.stringify(clip(bad[0] || missing[1], 80))} is missing from the output although it is not the superseded reference (the printer keeps it when the reference comments are defused)`)
      if (cands.length && (clearCut || c.meta.refKind !== 'comment-not-last') && missing.length === 0 && baseC.some(x => refuse(x.key) === (lastCand && lastCand.key))) push('superseded-comment-kept', `the original comment \`${clip(lastCand.key, 60)}\` is still present in the output`)
      out.commentsCompared = baseC.length
    }
  }
  out.tokens = tokenStream(t.code)
  return { out, violations }
}

module.exports = {
  id: 'C10',
  level: 'fault_enumeration',
  rule: 'every reference kind (inline data URL with and without a charset parameter, relative, relative in a sub-folder, absolute, none, missing, permission denied, directory, mid-read failure, invalid base64 / JSON / VLQ, index map, empty file, 3 MB generated map, two comments, block comment, comment not last) x {chain on/off} x {comments on/off} is enumerated per shard against programs whose strings, regexes, templates and other comments look like the sourceMappingURL comment, with random original maps (1-4 sources and names with repeated entries, sourceRoot, sparse lines, tokens without source). Monitors: emitted map == composition of the plain rewrite map (returned by the same call) with the original map, token by token, under both lookup semantics; plain rewrite map when there is no usable map or chaining is off; exactly one decodable trailer as last line; superseded comment removed and every other comment kept when comments are on (differential: the same call on a baseline input whose reference-like comments are defused in place must print the same comments except the one superseded reference); acorn token stream (strings/regexes by value) identical across the four chain/comments settings of the same input. distinct_nontrivial = distinct cases whose emitted map was decided.',
  assumptions: ['comments that the printer itself drops or relocates around injected code (it does so with and without a reference comment) are not attributed to this property', 'an oversized but well-formed map may or may not be chained (both accepted), it must not fail', 'a sourceMappingURL comment that is followed by more code may or may not be honoured (statement silent); text safety and the single trailer are still required', 'sourceRoot may be applied by joining with or without a slash'],
  plan (ctx) {
    const rounds = ctx.tier === 'thorough' ? 400 : 48
    const shards = []
    for (let k = 0; k < rounds; k++) shards.push({ round: k })
    return shards
  },
  minEvaluations () { return 300 },
  async runShard (spec, ctx) {
    const rng = new Rng(ctx.seed, 'c10', spec.round)
    const cases = []
    for (const refKind of REF_KINDS) {
      const r = rng.fork(refKind)
      // the same input under the four settings (needs identical generated text => fork with identical seed)
      const base = new Rng(ctx.seed, 'c10', spec.round, refKind)
      void r
      for (const chain of [true, false]) for (const comments of [true, false]) cases.push(genCase(new Rng(ctx.seed, 'c10case', spec.round, refKind), refKind, chain, comments))
      void base
    }
    const baseJobs = []
    cases.forEach((c, i) => { if (c.meta.comments) { const d = defused(c.code); if (d !== null) baseJobs.push({ i, job: Object.assign({}, c, { code: d }) }) } })
    const { responses: all } = rewriteJobs(cases.concat(baseJobs.map(b => b.job)))
    const responses = all.slice(0, cases.length)
    const baselines = new Map(baseJobs.map((b, k) => [b.i, all[cases.length + k]]))
    const rep = { evaluations: 0, distinct: [], violations: [], inconclusive: [], samples: [], counters: {}, sets: { reference_kinds: [] } }
    const bump = (k, n = 1) => { rep.counters[k] = (rep.counters[k] || 0) + n }
    const outs = []
    cases.forEach((c, i) => {
      const { out, violations } = check(c, responses[i], baselines.get(i))
      if (out.commentsCompared) bump('comments_compared_with_defused_baseline', out.commentsCompared)
      outs.push(out)
      bump('status:' + out.k)
      if (['timeout', 'harness'].includes(out.k)) { rep.inconclusive.push({ reason: 'harness-' + out.k, detail: c.meta.refKind }); return }
      rep.evaluations++
      rep.sets.reference_kinds.push(`${c.meta.refKind}/chain=${c.meta.chain}/comments=${c.meta.comments}`)
      rep.distinct.push(hashStr(c.code + c.cfgKey))
      if (out.composed) { bump('chained_cases'); bump('tokens_composed_and_compared', out.composed) }
      if (rep.samples.length < 1 && out.composed) rep.samples.push({ reference: c.meta.refKind, chain: c.meta.chain, comments: c.meta.comments, input: clip(c.code, 700), original_map: clip(JSON.stringify(c.meta.original), 300), tokens_composed: out.composed })
      for (const v of violations) rep.violations.push(v)
    })
    // text safety: token stream identical across the four settings of one input
    for (let i = 0; i < cases.length; i += 4) {
      const group = [0, 1, 2, 3].map(j => outs[i + j]).filter(o => o && o.tokens)
      for (let j = 1; j < group.length; j++) {
        if (JSON.stringify(group[j].tokens) !== JSON.stringify(group[0].tokens)) {
          const a = group[0].tokens; const b = group[j].tokens
          let d = 0
          while (d < a.length && a[d] === b[d]) d++
          rep.violations.push({ sig: `program-text-altered:${cases[i].meta.refKind}`, what: `[${cases[i].meta.refKind}] program tokens differ between chain/comments settings of the same input: token #${d} ${JSON.stringify(a[d])} vs ${JSON.stringify(b[d])}`, witness: { code: cases[i].code, file: cases[i].file, reader: cases[i].reader, config: cases[i + j].config, meta: cases[i + j].meta, other: cases[i].config } })
          break
        }
      }
      bump('text_safety_groups')
    }
    return rep
  },
  async replay (w) {
    const c = { code: w.code, file: w.file, reader: w.reader, config: w.config, meta: w.meta, cfgKey: 'replay' }
    const d = c.meta.comments ? defused(c.code) : null
    const { responses } = rewriteJobs(d !== null ? [c, Object.assign({}, c, { code: d })] : [c])
    const r = check(c, responses[0], responses[1])
    const violations = r.violations
    if (w.other) {
      const { responses: r2 } = rewriteJobs([Object.assign({}, c, { config: w.other, cfgKey: 'other' })])
      const o2 = check(Object.assign({}, c, { config: w.other, meta: Object.assign({}, w.meta, { chain: !!w.other.chainSourceMap, comments: !!w.other.comments }) }), r2[0])
      if (r.out.tokens && o2.out.tokens && JSON.stringify(r.out.tokens) !== JSON.stringify(o2.out.tokens)) violations.push({ sig: `program-text-altered:${w.meta.refKind}`, what: 'program tokens differ between settings' })
    }
    return { violations }
  }
}
