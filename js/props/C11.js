'use strict'
// C11 — stack traces and locations of rewritten files report original file and line (package layer under the real V8).
const path = require('path')
const S = require('../lib/smap')
const P = require('../lib/pkgshim')
const { cfg, STRING_METHODS } = require('../lib/configs')
const { Rng, hashStr, clip } = require('../lib/util')

const CFG = cfg({ methods: STRING_METHODS, verbosity: 'OFF' })
const CFG_CHAIN = cfg({ methods: STRING_METHODS, verbosity: 'OFF', chain: true })
const CFG_CHAIN_COMMENTS = cfg({ methods: STRING_METHODS, verbosity: 'OFF', chain: true, comments: true })
const CFG_COMMENTS = cfg({ methods: STRING_METHODS, verbosity: 'OFF', comments: true })

// directories of the rewritten files: plain, nested, non-ASCII, blanks and brackets, characters that are special in
// String.prototype.replace replacement patterns or in regular expressions
const DIRS = ['app', 'ROOT', 'lib/deep', 'ñ', 'app', 'with space (1)', 'a$&b', "q$'q$$", 'r[e]g.ex+', 'node_modules/@scope/pkg/dist']

// ---- generated module with throw sites on known lines -----------------------------------------------------
function genModule (rng, opts = {}) {
  const L = []
  const sites = {}
  const id = rng.int(100000)
  const add = (s) => { L.push(s); return L.length } // returns 1-based line number of the pushed line
  if (rng.bool(0.3)) add("'use strict'")
  for (let i = 0, n = rng.int(4); i < n; i++) add(`// filler ${i} ${'x'.repeat(rng.int(30))}`)
  if (opts.instrumented !== false) {
    add('function siteThrow(a, b) {')
    add(`  const x${id} = a + b.trim()${rng.bool() ? ';' : ''}`)
    if (rng.bool()) add('  let pad = `${a}:${b}`')
    sites.throw = { lo: add(`  throw new Error('site-throw-${id} ' + x${id})`), fn: 'siteThrow', args: ['"a"', '" b "'], ctor: 'Error' }
    sites.throw.hi = sites.throw.lo
    add('}')
    if (opts.multilineMessage) {
      // an error whose message has lines of its own, one of which reads like a stack frame
      add('function siteMultiline(a) {')
      add("  const m = a + 'first line'")
      sites.multiline = { lo: add(`  throw new Error(m + '\\n    at not a frame (of-${id}:1:1)\\nthird ' + a)`), fn: 'siteMultiline', args: ['"m"'], ctor: 'Error' }
      sites.multiline.hi = sites.multiline.lo
      add('}')
    }
    if (opts.markerLines) {
      // text of the module that reads like a map reference at the start of a line, before the real trailer:
      // a two-line template literal (the raw line break survives rewriting) and, with comments printed, the leftover
      // reference of a bundled chunk (valid map, wrong file)
      add('function emitWithMap(code, encoded) {')
      add('  return `${code}')
      add('//# sourceMappingURL=data:application/json;base64,${encoded}`')
      add('}')
      if (opts.chain) add('//# sourceMappingURL=data:application/json;base64,' + Buffer.from(JSON.stringify({ version: 3, sources: ['LEFTOVER-WRONG.ts'], names: [], mappings: 'AAAA;AACA;AACA;AACA;AACA;AACA;AACA;AACA;AACA;AACA;AACA;AACA;AACA;AACA;AACA;AACA;AACA;AACA;AACA;AACA;AACA;AACA;AACA;AACA;AACA;AACA;AACA;AACA;AACA;AACA;AACA;AACA;AACA;AACA;AACA;AACA;AACA;AACA;AACA;AACA' })).toString('base64'))
    }
    add('function siteNull(a, n) {')
    add("  const y = a + 'pad'")
    const lo = add('  return y +')
    const hi = add('    n.trim().concat(a)')
    sites.nullrecv = { lo, hi, fn: 'siteNull', args: ['"a"', 'null'], ctor: 'TypeError' }
    add('}')
    add('function siteHook(a) {')
    const hlo = add('  const z = a +')
    const hhi = add("    'BOOM-HOOK'")
    sites.hook = { lo: hlo, hi: hhi, fn: 'siteHook', args: ['"q"'], ctor: 'Error', frame: 1 }
    add('  return z')
    add('}')
    add('function siteEval(a) {')
    add("  const q = a + 'pre'")
    sites.eval = { lo: add(`  return eval('(function evalInner() { throw new SyntaxError("in-eval-${id}" + 1) })()') + q`), fn: 'siteEval', args: ['"e"'], ctor: 'SyntaxError', evalFrame: true }
    sites.eval.hi = sites.eval.lo
    add('}')
    add('function siteNested(a) {')
    add('  const inner = (v) => {')
    add('    const s = a + v')
    sites.nested = { lo: add(`    throw new RangeError('nested-${id} ' + s)`), fn: 'siteNested', args: ['"n"'], ctor: 'RangeError' }
    sites.nested.hi = sites.nested.lo
    add('  }')
    add('  return [1].map(inner)')
    add('}')
    sites.top = { lo: add(`exports.topError = new Error('top-level-${id} ' + __filename.slice(0, 1))`), top: true, ctor: 'Error' }
    sites.top.hi = sites.top.lo
    add('function siteColumnZero(a) {')
    const c0lo = add('  const e =')
    const c0hi = add(`new TypeError('col-zero-${id} ' + a)`)
    sites.colzero = { lo: c0lo, hi: c0hi, fn: 'siteColumnZero', args: ['"z"'], ctor: 'TypeError', returned: true }
    add('  return e')
    add('}')
    // call chains broken over several lines: V8 reports the call at the method name, not at the start of the expression
    add(`function userObj() { return { concat (x) { throw new RangeError('user-concat-${id} ' + x) }, trim () { return this }, toString () { throw new RangeError('user-tostring-${id}') }, boom () { throw new RangeError('user-boom-${id}') }, get prop () { throw new RangeError('user-getter-${id}') } } }`)
    add('function siteChain(b, p) {')
    const chlo = add('  return b')
    const chhi = add('    .concat(p)')
    sites.chain = { lo: chlo, hi: chhi, fn: 'siteChain', mkArgs: 'userObj', ctor: 'RangeError' }
    add('}')
    add('function siteChainLong(b, p) {')
    const cllo = add(`  const r${id} = p +`)
    add('    b')
    add('      .trim()')
    const clhi = add('      .concat(p)')
    sites.chainlong = { lo: cllo, hi: clhi, fn: 'siteChainLong', mkArgs: 'userObj', ctor: 'RangeError' }
    add(`  return r${id}`)
    add('}')
    add('function siteProtoCall(b, p) {')
    const pclo = add('  return String.prototype.concat')
    add('    .call(')
    const pchi = add('      b, p)')
    sites.protocall = { lo: pclo, hi: pchi, fn: 'siteProtoCall', mkArgs: 'userObj', ctor: 'RangeError' }
    add('}')
    add('function siteOptChain(b, p) {')
    const oclo = add('  return b')
    add('    ?.trim()')
    const ochi = add('    .concat(p)')
    sites.optchain = { lo: oclo, hi: ochi, fn: 'siteOptChain', mkArgs: 'userObj', ctor: 'RangeError' }
    add('}')
    // implicit coercions (toString of an operand that throws) on statements broken over several lines
    add('function sitePlusCoerce(b, p) {')
    const pplo = add(`  const r${id} = p +`)
    const pphi = add('    b')
    sites.pluscoerce = { lo: pplo, hi: pphi, fn: 'sitePlusCoerce', mkArgs: 'userObj', ctor: 'RangeError' }
    add(`  return r${id}`)
    add('}')
    if (opts.longLine) {
      // a call site far to the right on its line (minified bundles, inlined data): columns beyond 16 bits
      add('function siteLongLine(b, p) {')
      sites.longline = { lo: add(`  const r${id} = '${'x'.repeat(70000)}'.length + p + b.boom()`), fn: 'siteLongLine', mkArgs: 'userObj', ctor: 'RangeError' }
      sites.longline.hi = sites.longline.lo
      add(`  return r${id}`)
      add('}')
      add('exports.siteLongLine = siteLongLine')
    }
    add('function sitePlusLeadCoerce(b, p) {')
    const pllo = add(`  const q${id} = p`)
    const plhi = add('    + b')
    sites.plusleadcoerce = { lo: pllo, hi: plhi, fn: 'sitePlusLeadCoerce', mkArgs: 'userObj', ctor: 'RangeError' }
    add(`  return q${id}`)
    add('}')
    add('function siteTplCoerce(b, p) {')
    const tclo = add('  return `${p}')
    add('   ${')
    const tchi = add('     b}`')
    sites.tplcoerce = { lo: tclo, hi: tchi, fn: 'siteTplCoerce', mkArgs: 'userObj', ctor: 'RangeError' }
    add('}')
    add('function siteAddAssignCoerce(b, p) {')
    add('  let acc = p')
    const aalo = add('  acc +=')
    const aahi = add('    b')
    sites.addassigncoerce = { lo: aalo, hi: aahi, fn: 'siteAddAssignCoerce', mkArgs: 'userObj', ctor: 'RangeError' }
    add('  return acc')
    add('}')
    add('function siteArgCall(b, p) {')
    const aclo = add('  return p.concat(p,')
    const achi = add('    b.boom())')
    sites.argcall = { lo: aclo, hi: achi, fn: 'siteArgCall', mkArgs: 'userObj', ctor: 'RangeError' }
    add('}')
    add('function siteCallback(b, p) {')
    const cblo = add('  return p')
    add("    .replace('p', function cb () {")
    add('      return b.boom()')
    add('    })')
    const cbhi = add('    .trim()')
    sites.callback = { lo: cblo, hi: cbhi, fn: 'siteCallback', mkArgs: 'userObj', ctor: 'RangeError' }
    add('}')
    add('function siteGetterArg(b, p) {')
    const galo = add('  return (p +')
    add('    p).concat(')
    const gahi = add('    b.prop)')
    sites.getterarg = { lo: galo, hi: gahi, fn: 'siteGetterArg', mkArgs: 'userObj', ctor: 'RangeError' }
    add('}')
    add(`Object.assign(exports, { sitePlusCoerce, sitePlusLeadCoerce, siteTplCoerce, siteAddAssignCoerce, siteArgCall, siteCallback, siteGetterArg })`)
    add(`Object.assign(exports, { userObj, siteChain, siteChainLong, siteProtoCall, siteOptChain, siteThrow, siteNull, siteHook, siteEval, siteNested, siteColumnZero${opts.multilineMessage ? ', siteMultiline' : ''} })`)
  } else {
    // nothing to instrument: the rewriter reports notmodified and the package must not translate anything
    add('function siteThrow(a, b) {')
    for (let i = 0, n = rng.int(3); i < n; i++) add(`  // pad ${i}`)
    sites.throw = { lo: add(`  throw new Error('site-throw-${id}')`), fn: 'siteThrow', args: ['"a"', '" b "'], ctor: 'Error' }
    sites.throw.hi = sites.throw.lo
    add('}')
    sites.top = { lo: add(`exports.topError = new Error('top-level-${id}')`), top: true, ctor: 'Error' }
    sites.top.hi = sites.top.lo
    add('Object.assign(exports, { siteThrow })')
  }
  if (opts.bigFile) {
    // a generated data table in front makes the module larger than half a megabyte; every site moves down by its line count
    const rows = Array.from({ length: 9000 }, (_, k) => `  ['row-${k}', ${k}, 'padding padding padding padding padding'],`)
    const shift = rows.length + 2
    L.unshift('const TABLE = [', ...rows, ']')
    for (const st of Object.values(sites)) { st.lo += shift; st.hi += shift }
  }
  let code = L.join('\n') + '\n'
  let orig = null
  if (opts.chain) {
    // pre-transpilation map: input line l (0-based) -> orig.ts line 100 + l; tokens at column 0 and at a few other columns
    const tokens = []
    L.forEach((line, l) => { tokens.push({ genLine: l, genCol: 0, src: 0, srcLine: 100 + l, srcCol: 0 }); for (const c of [2, 8, 17]) if (c < line.length) tokens.push({ genLine: l, genCol: c, src: 0, srcLine: 100 + l, srcCol: c + 1 }) })
    // the pre-transpilation source is named relative to the file, or (ts-node, babel with absolute sourceFileName) absolutely
    orig = { version: 3, sources: [opts.absoluteSource ? '/abs/src-' + id + '/orig.ts' : (opts.nonAsciiSource ? 'orígenes/源-' + id + '.ts' : 'orig.ts')], names: [], mappings: S.encodeMappings(tokens) }
    code += '//# sourceMappingURL=data:application/json;base64,' + Buffer.from(JSON.stringify(orig)).toString('base64') + '\n'
  }
  return { code, sites, id, chain: !!opts.chain, origSource: orig ? orig.sources[0] : null }
}

function expectedFor (mod, file, site) {
  if (mod.chain) { const src = mod.origSource || 'orig.ts'; return { path: path.isAbsolute(src) ? src : path.join(path.dirname(file), src), lo: site.lo + 100, hi: site.hi + 100 } }
  return { path: file, lo: site.lo, hi: site.hi }
}

// hooks installed while the rewritten module runs: pass-through, except a marker makes the hook throw
function installHooks () {
  global._ddiast = new Proxy({}, { get: (t, k) => typeof k === 'symbol' ? undefined : function hookFn (res) { if (typeof res === 'string' && res.includes('BOOM-HOOK')) throw new Error('hook-threw'); return res }, has: () => true })
}

function collectErrors (exportsObj, mod) {
  const errs = {}
  for (const [name, s] of Object.entries(mod.sites)) {
    if (s.top) { errs[name] = exportsObj.topError; continue }
    const args = s.mkArgs ? [exportsObj[s.mkArgs](), 'p'] : s.args.map(a => JSON.parse(a.replace(/^"(.*)"$/, (m, x) => JSON.stringify(x))))
    try { const ret = exportsObj[s.fn](...args); errs[name] = s.returned ? ret : null } catch (e) { errs[name] = e }
  }
  return errs
}

// lines V8 itself reports for the frames of `file` when the ORIGINAL module runs under that name (one list per site)
function originalFrames (mod, file) {
  const out = {}
  const saved = Error.prepareStackTrace
  try {
    Error.prepareStackTrace = undefined
    let ex
    try { ex = P.compileAs(mod.code, file) } catch (e) { return out }
    const errs = collectErrors(ex, mod)
    for (const [name, site] of Object.entries(mod.sites)) {
      const err = errs[name]
      if (!err || site.evalFrame || name === 'hook' || err.constructor.name !== site.ctor) continue
      Error.prepareStackTrace = (e, cs) => cs.filter(c => c.getFileName() === file && !c.isEval()).map(c => ({ fn: c.getFunctionName(), line: c.getLineNumber() }))
      try { const v = err.stack; if (Array.isArray(v)) out[name] = v } catch (e) {} finally { Error.prepareStackTrace = undefined }
    }
  } finally { Error.prepareStackTrace = saved }
  return out
}

function checkModule (pkg, mod, file, resp, push, counters) {
  // run the rewritten content under the original file name, collect one error per site (stack not yet formatted)
  const savedPST = Error.prepareStackTrace
  const results = {}
  let mapTokens = []
  let mapSources = []
  try { const t = S.splitTrailer(resp.content); mapSources = t.map.sources; mapTokens = S.decodeMappings(t.map).filter(x => x.src !== undefined).sort((x, y) => x.genLine - y.genLine || x.genCol - y.genCol) } catch (e) {}
  try {
    Error.prepareStackTrace = undefined
    Error.stackTraceLimit = 30
    installHooks()
    const origFrames = originalFrames(mod, file)
    const lineShift = mod.chain ? 100 : 0
    let ex
    try { ex = P.compileAs(resp.content, file) } catch (e) { push('rewritten-module-failed-to-load', `running the rewritten module threw: ${e && e.message}`); return results }
    for (const handlerPath of ['wrap-user-handler', 'format-string', 'format-string', 'wrap-user-handler']) {
      const errs = collectErrors(ex, mod)
      if (mod.sites.top) { try { errs.top = new (P.compileAs(resp.content, file).topError.constructor)('x'); errs.top = P.compileAs(resp.content, file).topError } catch (e) {} }
      for (const [name, site] of Object.entries(mod.sites)) {
        const err = errs[name]
        if (!err) { push('site-did-not-throw', `site ${name} did not throw`); continue }
        if (err.constructor.name !== site.ctor && !(name === 'hook' && err.message === 'hook-threw')) { push('unexpected-error-at-site', `site ${name}: ${err.constructor.name}: ${err.message}`); continue }
        const exp = expectedFor(mod, file, site)
        let stackValue
        let rawSites = null
        // reference formatting without the package: tells which frames belong to the rewritten file
        try {
          if (handlerPath === 'wrap-user-handler') {
            Error.prepareStackTrace = pkg.getPrepareStackTrace((e, cs) => cs.map(c => ({ file: c.getFileName(), line: c.getLineNumber(), col: c.getColumnNumber(), raw: c.callSite ? { file: c.callSite.getFileName(), line: c.callSite.getLineNumber(), isEval: c.callSite.isEval() } : null, fn: c.getFunctionName() })))
          } else {
            // capture V8's raw call sites, then let the package format the string
            const pkgHandler = pkg.getPrepareStackTrace()
            Error.prepareStackTrace = (e, cs) => {
              rawSites = cs.map(c => ({ file: c.getFileName(), line: c.getLineNumber(), col: c.getColumnNumber(), isEval: c.isEval(), origin: c.isEval() ? String(c.getEvalOrigin()) : null }))
              return pkgHandler(e, cs)
            }
          }
          stackValue = err.stack
        } catch (e) { push('prepare-stack-trace-threw', `reading .stack with the package's prepareStackTrace threw: ${e && e.message}`); continue } finally { Error.prepareStackTrace = undefined }
        counters.stacks++
        if (handlerPath === 'wrap-user-handler') {
          if (!Array.isArray(stackValue)) { push('handler-not-called', 'user handler result was not returned'); continue }
          const own = stackValue.filter(f => f.raw && f.raw.file === file)
          if (!own.length && !site.evalFrame) { push('no-frame-of-rewritten-file', `site ${name}: no frame of ${file} in the structured stack`); continue }
          // sites whose error is raised inside a helper of the same file (mkArgs) have that helper's frame first: the
          // differential comparison below decides them
          const f = site.mkArgs ? null : own[0]
          if (f) {
            counters.frames++
            if (f.file !== exp.path) push('wrong-path', `site ${name} [${handlerPath}]: translated path ${f.file}, expected ${exp.path}`)
            if (!(f.line >= exp.lo && f.line <= exp.hi)) push('wrong-line', `site ${name} [${handlerPath}]: rewritten line ${f.raw.line} translated to ${f.line}, the statement is on original line(s) ${exp.lo}-${exp.hi}`)
          }
          // every frame of the rewritten file carries the line V8 reports for the same frame when the original runs
          const of = origFrames[name]
          if (of && own.length) {
            if (of.length !== own.length) push('frame-count-differs-from-original', `site ${name}: ${own.length} frames of the rewritten file, ${of.length} when the original runs`)
            else {
              for (let fi = 0; fi < of.length; fi++) {
                counters.framesDiff = (counters.framesDiff || 0) + 1
                if (own[fi].line !== of[fi].line + lineShift || own[fi].file !== exp.path) { push('frame-line-differs-from-original:' + name, `site ${name} [${handlerPath}]: frame #${fi} (${of[fi].fn}) of the rewritten file is reported at ${own[fi].file}:${own[fi].line}; V8 reports line ${of[fi].line}${lineShift ? ' (+' + lineShift + ' through the chained map)' : ''} for it when the original runs`); break }
              }
            }
          }
          // frames of files the package knows nothing about are unchanged
          for (const fr of stackValue) if (fr.raw && fr.raw.file !== file && (fr.file !== fr.raw.file || fr.line !== fr.raw.line)) { push('foreign-frame-changed', `frame of ${fr.raw.file}:${fr.raw.line} became ${fr.file}:${fr.line}`); break }
        } else {
          if (typeof stackValue !== 'string') { push('format-not-string', 'prepareStackTrace without user handler did not return a string'); continue }
          const lines = stackValue.split('\n').filter(l => /^\s*at /.test(l))
          const mine = lines.filter(l => l.includes(exp.path + ':') || l.includes(file + ':'))
          if (!mine.length) { push('no-frame-of-rewritten-file', `site ${name}: no frame mentioning ${file} in ${clip(stackValue, 300)}`); continue }
          const first = mine[0]
          const esc = exp.path.replace(/[.*+?^${}()|[\]\\]/g, '\\$&')
          const m = new RegExp(esc + ':(\\d+):(\\d+)').exec(first)
          counters.frames++
          if (!m) push('wrong-path', `site ${name} [${handlerPath}]: frame \`${first.trim()}\` does not mention the original path ${exp.path}`)
          else if (!site.mkArgs && !(+m[1] >= exp.lo && +m[1] <= exp.hi)) push('wrong-line', `site ${name} [${handlerPath}]: frame \`${first.trim()}\` reports line ${m[1]}, the statement is on original line(s) ${exp.lo}-${exp.hi}`)
          const of2 = origFrames[name]
          if (of2 && m) {
            const re = new RegExp(esc + ':(\\d+):(\\d+)')
            const mineLines = lines.map(l => re.exec(l)).filter(Boolean).map(x => +x[1])
            if (mineLines.length === of2.length) {
              for (let fi = 0; fi < of2.length; fi++) {
                counters.framesDiff = (counters.framesDiff || 0) + 1
                if (mineLines[fi] !== of2[fi].line + lineShift) { push('frame-line-differs-from-original:' + name, `site ${name} [${handlerPath}]: frame #${fi} (${of2[fi].fn}) is printed with line ${mineLines[fi]}; V8 reports line ${of2[fi].line}${lineShift ? ' (+' + lineShift + ' through the chained map)' : ''} for it when the original runs`); break }
              }
            } else push('frame-count-differs-from-original', `site ${name} [${handlerPath}]: ${mineLines.length} printed frames mention ${exp.path}, ${of2.length} frames when the original runs`)
          }
          // every frame of the rewritten file (also eval frames, through their origin) must show the position an
          // independent decoder finds for it in the embedded map of the content that was cached
          if (rawSites && lines.length === rawSites.length) {
            for (let fi = 0; fi < rawSites.length; fi++) {
              const rs = rawSites[fi]
              let f = rs.file; let l = rs.line; let c = rs.col
              if (rs.isEval) { const m2 = /\(((?:.:[/\\]?)?[/\\].*):(\d+):(\d+)\)/.exec(rs.origin || ''); if (!m2) continue; f = m2[1]; l = +m2[2]; c = +m2[3] }
              if (f !== file) continue
              const tok = S.lookupGlobal(mapTokens, l - 1, c - 1)
              if (!tok || tok.src === undefined) continue
              const expPath = path.isAbsolute(mapSources[tok.src]) ? mapSources[tok.src] : path.join(path.dirname(file), mapSources[tok.src])
              counters.frames++
              if (!lines[fi].includes(`${expPath}:${tok.srcLine + 1}:`)) { push('frame-not-translated', `site ${name} [${handlerPath}]: frame #${fi} \`${lines[fi].trim()}\` (raw position ${l}:${c}${rs.isEval ? ', eval origin' : ''}) should read ${expPath}:${tok.srcLine + 1}`); break }
            }
          }
          Error.prepareStackTrace = undefined
        }
        results[name + ':' + handlerPath] = true
      }
    }
  } finally { Error.prepareStackTrace = savedPST; delete global._ddiast }
  return results
}

function fakeCallSite (file, line, col) {
  return { getFileName: () => file, getLineNumber: () => line, getColumnNumber: () => col, getThis: () => undefined, getTypeName: () => null, getFunction: () => undefined, getFunctionName: () => 'fake', getMethodName: () => null, getEvalOrigin: () => undefined, isToplevel: () => true, isEval: () => false, isNative: () => false, isConstructor: () => false, toString: () => `fake (${file}:${line}:${col})` }
}

function lookup (pkg, file, line, col) {
  const h = pkg.getPrepareStackTrace((e, cs) => ({ file: cs[0].getFileName(), line: cs[0].getLineNumber(), col: cs[0].getColumnNumber() }))
  return h(new Error('lookup'), [fakeCallSite(file, line, col)])
}

function findMarker (content, marker) {
  // position of the `throw` keyword of the statement that mentions the marker
  const at = content.indexOf(marker)
  if (at < 0) return null
  const idx = content.lastIndexOf('throw new Error(', at)
  if (idx < 0) return null
  const before = content.slice(0, idx).split('\n')
  return { line: before.length, col: before[before.length - 1].length + 1 }
}

module.exports = {
  id: 'C11',
  level: 'exploration',
  rule: 'the repository\'s real main.js / js/source-map / js/stack-trace are loaded with the native module replaced by a shim that calls rwharness; generated CommonJS modules with throw sites on known lines (throw statement, TypeError from a null receiver inside an injected sequence on a two-line statement, a hook that throws on a marker, an error inside an eval-created frame, a nested closure, top-level code, a call site beyond column 65536 of its line, modules larger than half a megabyte, an error whose multi-line message contains a line that reads like a frame, errors raised by the callee of a call chain broken over several lines: member chain, chain inside a `+`, `X.prototype.m` + `.call(` on separate lines, optional chain), placed directly under the root folder and under plain, nested, non-ASCII and hostile directory names, with ASCII and non-ASCII base names (and non-ASCII chained source names) (blanks and brackets, `$&` / `$\' ` / `$$`, regex metacharacters, node_modules/@scope) with various extensions, are rewritten through the caching Rewriter, compiled under the original file name with Module.prototype._compile and run; each error\'s stack is read through both code paths of getPrepareStackTrace (wrapping a user handler; formatting V8\'s string) and the frame of the rewritten file must carry the original path and a line inside the statement\'s span (with a chained inline map: orig.ts - named relatively or by an absolute path - and line+100); differential line oracle: the ORIGINAL module is also run under the same file name and every frame of the file must be reported, after translation, on exactly the line V8 itself reports for that frame in the original run; frames of other files unchanged; nothing throws. Real-world files: corpus files rewritten through the caching Rewriter, then 60 random positions of each rewritten text looked up through the package and compared with an independent decoder of the embedded map. On-disk lookups: getOriginalPathAndLineFromSourceMap over temporary files with inline / external / missing / invalid / absent maps, compared with an independent decoder where the lookup conventions agree (a token on the same line at or before the column). Histories: random sequences of rewrites (modified v1/v2, not modified, syntax error) over 5 file names, after each of which a lookup for every file must use the map of its most recent rewrite (positions unchanged when that rewrite was not modified or failed, i.e. when the caller serves the text as it is). distinct_nontrivial = distinct (module, site, path) stacks plus history lookups decided.',
  assumptions: ['eval frames are only checked through the string-formatting path (the wrapping path has no file name for them)', 'the differential line oracle skips the hook-raised and eval sites (no counterpart frame in the original run)', 'lru-cache is a 12-line stand-in with get/set'],
  plan (ctx) {
    const shards = []
    const nMods = ctx.tier === 'thorough' ? 3200 : 384
    for (let k = 0; k < nMods / 8; k++) shards.push({ kind: 'sites', count: 8, stream: k })
    const nHist = ctx.tier === 'thorough' ? 2400 : 256
    for (let k = 0; k < nHist / 8; k++) shards.push({ kind: 'histories', count: 8, stream: 1000 + k })
    // real-world files: every position of the rewritten text must translate as an independent decoder of the embedded map says
    const files = require('../lib/corpus').list()
    const pick = ctx.tier === 'thorough' ? files : new Rng(ctx.seed, 'c11corpus').sample(files, 96)
    for (let k = 0; k < pick.length; k += 8) shards.push({ kind: 'corpus', items: pick.slice(k, k + 8).map(f => f.name), stream: 3000 + k })
    const nDisk = ctx.tier === 'thorough' ? 64 : 16
    for (let k = 0; k < nDisk; k++) shards.push({ kind: 'disk', stream: 2000 + k })
    return shards
  },
  minEvaluations () { return 100 },
  async runShard (spec, ctx) {
    const rep = { evaluations: 0, distinct: [], violations: [], inconclusive: [], samples: [], counters: {}, sets: {} }
    const bump = (k, n = 1) => { rep.counters[k] = (rep.counters[k] || 0) + n }
    const rng = new Rng(ctx.seed, 'c11', spec.stream)
    if (spec.kind === 'sites') {
      const sharedPkg = P.loadPackage() // module-level caches and state persist across files, as in a real process
      for (let i = 0; i < spec.count; i++) {
        const chain = i % 3 === 2
        const markerLines = i % 8 >= 5
        const mod = genModule(rng.fork(i), { chain, multilineMessage: i % 4 === 1, markerLines, absoluteSource: chain && i === 5, nonAsciiSource: chain && i === 2 && spec.stream % 2 === 1, longLine: i === 7 || (chain && i === 2 && spec.stream % 4 === 0), bigFile: i === 4 && spec.stream % 3 === 0 })
        const dirName = rng.pick(DIRS)
        const file = `${dirName === 'ROOT' ? '' : '/srv/c11/' + dirName}/${rng.pick(['mod', 'mod', 'módulo-ñ', '模块', 'm o d'])}_${spec.stream}_${i}${rng.pick(['.js', '.js', '.cjs', '', '.min.js'])}` // ROOT: a file directly under the file system root
        const pkg = sharedPkg
        const config = markerLines ? (chain ? CFG_CHAIN_COMMENTS : CFG_COMMENTS) : (chain ? CFG_CHAIN : CFG)
        const rw = new pkg.Rewriter(config)
        let resp
        try { resp = rw.rewrite(mod.code, file) } catch (e) { rep.inconclusive.push({ reason: 'rewrite-failed', detail: String(e.message).slice(0, 200) }); continue }
        const counters = { stacks: 0, frames: 0 }
        const seen = new Set()
        const push = (kind, what) => { const sig = `sites:${kind}${chain ? ':chained' : ''}`; if (seen.has(sig)) return; seen.add(sig); rep.violations.push({ sig, what, witness: { code: mod.code, file, chain, sites: mod.sites, config, origSource: mod.origSource } }) }
        if (!resp.metrics || resp.metrics.status !== 'modified') { push('not-modified', 'generated module was not modified'); continue }
        const res = checkModule(pkg, mod, file, resp, push, counters)
        rep.evaluations += Object.keys(res).length
        for (const k of Object.keys(res)) rep.distinct.push(hashStr(mod.code + k))
        bump('stacks_read', counters.stacks); bump('frames_of_rewritten_files_checked', counters.frames); bump('frames_compared_with_v8_lines_of_the_original_run', counters.framesDiff || 0); bump(chain ? 'modules_chained' : 'modules_plain')
        if (rep.samples.length < 1 && mod.code.length < 20000) rep.samples.push({ file, chained: chain, input: clip(mod.code, 900), sites: mod.sites })
      }
      return rep
    }
    if (spec.kind === 'corpus') {
      const corpus = require('../lib/corpus')
      const pkg = P.loadPackage()
      const rw = new pkg.Rewriter(CFG)
      for (const name of spec.items) {
        const dirName = rng.pick(DIRS)
        const file = `${dirName === 'ROOT' ? '' : '/srv/c11corpus/' + dirName}/${name}`
        let resp
        try { resp = rw.rewrite(corpus.read(name), file) } catch (e) { bump('corpus_rewrite_errors'); continue }
        if (!resp.metrics || resp.metrics.status !== 'modified') { bump('corpus_not_modified'); continue }
        let t, toks
        try { t = S.splitTrailer(resp.content); toks = S.decodeMappings(t.map).filter(x => x.src !== undefined).sort((x, y) => x.genLine - y.genLine || x.genCol - y.genCol) } catch (e) { rep.violations.push({ sig: 'corpus:trailer-undecodable', what: `embedded map of ${name} cannot be decoded: ${e.message}`, witness: { name } }); continue }
        const lines = resp.content.split('\n')
        bump('corpus_files')
        for (let q = 0; q < 60; q++) {
          const line = rng.range(1, lines.length)
          const col = rng.range(1, Math.max(1, lines[line - 1].length + 1))
          let got
          try { got = lookup(pkg, file, line, col) } catch (e) { rep.violations.push({ sig: 'corpus:lookup-threw', what: `lookup threw for ${name} ${line}:${col}: ${e.message}`, witness: { name, line, col } }); continue }
          rep.evaluations++
          rep.distinct.push(hashStr(name + ':' + line + ':' + col))
          bump('corpus_lookups')
          const tok = S.lookupGlobal(toks, line - 1, col - 1)
          const exp = tok ? { file: path.join(path.dirname(file), t.map.sources[tok.src]), line: tok.srcLine + 1 } : { file, line }
          if (got.file !== exp.file || got.line !== exp.line) {
            rep.violations.push({ sig: 'corpus:wrong-translation', what: `${name}: rewritten position ${line}:${col} translated to ${got.file}:${got.line}, an independent decoder of the embedded map says ${exp.file}:${exp.line}`, witness: { name, file, line, col } })
            break
          }
        }
      }
      return rep
    }
    if (spec.kind === 'disk') {
      // getOriginalPathAndLineFromSourceMap: files on disk that carry their own (pre-rewrite) source map
      const fs = require('fs')
      const os = require('os')
      const root = fs.mkdtempSync(path.join(os.tmpdir(), 'verif-c11-'))
      try {
        const pkg = P.loadPackage()
        const r = rng
        for (let i = 0; i < 12; i++) {
          const dir = path.join(root, 'd' + i, r.pick(['src', 'dist/deep', 'ñ']))
          fs.mkdirSync(dir, { recursive: true })
          const file = path.join(dir, 'gen' + i + '.js')
          const nLines = r.range(3, 12)
          const lines = Array.from({ length: nLines }, (_, l) => `function f${l}(a) { return a + ${l} } // line ${l}`)
          const tokens = []
          lines.forEach((ln, l) => { if (r.bool(0.85)) { tokens.push({ genLine: l, genCol: 0, src: 0, srcLine: 50 + l * 2, srcCol: 3 }); for (const c of [9, 20]) if (r.bool(0.6)) tokens.push({ genLine: l, genCol: c, src: r.int(2), srcLine: 50 + l * 2 + 1, srcCol: c }) } })
          const map = { version: 3, sources: ['../ts/orig' + i + '.ts', 'other.ts'], names: [], mappings: S.encodeMappings(tokens) }
          const kind = r.pick(['inline', 'external', 'external-missing', 'none', 'invalid-json', 'invalid-base64', 'empty-url'])
          let trailer = ''
          if (kind === 'inline') trailer = '//# sourceMappingURL=data:application/json;base64,' + Buffer.from(JSON.stringify(map)).toString('base64')
          else if (kind === 'external') { trailer = '//# sourceMappingURL=gen' + i + '.js.map'; fs.writeFileSync(file + '.map', JSON.stringify(map)) } else if (kind === 'external-missing') trailer = '//# sourceMappingURL=nope.map'
          else if (kind === 'invalid-json') { trailer = '//# sourceMappingURL=bad.map'; fs.writeFileSync(path.join(dir, 'bad.map'), '{"version":3,') } else if (kind === 'invalid-base64') trailer = '//# sourceMappingURL=data:application/json;base64,@@@@'
          else if (kind === 'empty-url') trailer = '//# sourceMappingURL='
          fs.writeFileSync(file, lines.join('\n') + '\n' + trailer + (r.bool() ? '\n' : ''))
          const usable = kind === 'inline' || kind === 'external'
          const sorted = tokens.slice().sort((x, y) => x.genLine - y.genLine || x.genCol - y.genCol)
          for (let q = 0; q < 10; q++) {
            const line = r.range(1, nLines); const colArg = r.pick([1, 2, 10, 15, 21, 30, undefined, 0])
            const col = colArg || 1 // a lookup by line only (column omitted or 0) asks for the beginning of the line
            let got
            try { got = colArg === undefined ? pkg.getOriginalPathAndLineFromSourceMap(file, line) : pkg.getOriginalPathAndLineFromSourceMap(file, line, colArg) } catch (e) { rep.violations.push({ sig: 'disk:lookup-threw:' + kind, what: `getOriginalPathAndLineFromSourceMap threw for a ${kind} map: ${e.message}`, witness: { kind, file, line, col } }); continue }
            rep.evaluations++
            rep.distinct.push(hashStr(spec.stream + ':' + i + ':' + q))
            bump('disk_lookups')
            const sameLine = sorted.filter(t => t.genLine === line - 1 && t.genCol <= col - 1).pop()
            if (!usable) {
              if (got.path !== file || got.line !== line) rep.violations.push({ sig: 'disk:changed-without-usable-map:' + kind, what: `file with ${kind} map reference: position ${line}:${col} came back as ${got.path}:${got.line}`, witness: { kind, file, line, col, got } })
            } else if (sameLine) {
              // a token at or before the column on the same line: both lookup conventions agree
              const expPath = path.join(dir, map.sources[sameLine.src])
              if (got.path !== expPath || got.line !== sameLine.srcLine + 1) rep.violations.push({ sig: 'disk:wrong-translation:' + kind, what: `position ${line}:${col} of a file with an ${kind} map translated to ${got.path}:${got.line}, expected ${expPath}:${sameLine.srcLine + 1}`, witness: { kind, line, col, got, map } })
              bump('disk_lookups_with_expected_translation')
            }
          }
          // an unknown file is left alone
          const u = pkg.getOriginalPathAndLineFromSourceMap(path.join(dir, 'missing' + i + '.js'), 3, 4)
          if (u.path !== path.join(dir, 'missing' + i + '.js') || u.line !== 3) rep.violations.push({ sig: 'disk:unknown-file-changed', what: `lookup for a file that does not exist returned ${JSON.stringify(u)}`, witness: {} })
        }
      } finally { fs.rmSync(root, { recursive: true, force: true }) }
      return rep
    }
    // histories
    for (let h = 0; h < spec.count; h++) {
      const r = rng.fork('h' + h)
      const pkg = P.loadPackage()
      const rw = new pkg.Rewriter(CFG)
      // five files, two pairs of which share a base name in different directories
      const files = [`/srv/c11h/${spec.stream}_${h}/a/index.js`, `/srv/c11h/${spec.stream}_${h}/b/index.js`, `/srv/c11h/${spec.stream}_${h}/a/util.js`, `/srv/c11h/${spec.stream}_${h}/util.js`, `/srv/c11h/${spec.stream}_${h}/file4.js`]
      const current = new Map() // file -> {kind, mod, content}
      const len = r.range(6, 20)
      const hist = []
      for (let step = 0; step < len; step++) {
        const file = r.pick(files)
        const kindV = r.weighted([[4, 'modified'], [3, 'notmodified'], [1, 'syntax-error']])
        const mod = genModule(r.fork(step), { instrumented: kindV !== 'notmodified' })
        let code = mod.code
        if (kindV === 'syntax-error') code = code.replace('function siteThrow(a, b) {', 'function siteThrow(a, b) { ) ')
        hist.push(`${file.split('/').slice(-2).join('/')}:${kindV}`)
        let resp = null
        try { resp = rw.rewrite(code, file) } catch (e) { if (kindV !== 'syntax-error') rep.inconclusive.push({ reason: 'rewrite-failed', detail: String(e.message).slice(0, 100) }) }
        if (resp) {
          const status = resp.metrics && resp.metrics.status
          if (kindV === 'modified' && status !== 'modified') { rep.inconclusive.push({ reason: 'unexpected-status', detail: String(status) }); continue }
          current.set(file, { kind: status, mod, content: resp.content })
        } else if (kindV === 'syntax-error') current.set(file, { kind: 'failed', mod, content: code }) // the caller serves the text as it is
        // after every step: lookups for every file use the map of its most recent rewrite
        for (const [f, cur] of current) {
          const marker = `site-throw-${cur.mod.id}`
          const pos = findMarker(cur.content, marker)
          if (!pos) { rep.inconclusive.push({ reason: 'marker-not-found', detail: f }); continue }
          let got
          try { got = lookup(pkg, f, pos.line, pos.col) } catch (e) { rep.violations.push({ sig: 'history:lookup-threw', what: `lookup threw: ${e.message}`, witness: { history: hist.slice(), file: f } }); continue }
          rep.evaluations++
          rep.distinct.push(hashStr(spec.stream + ':' + h + ':' + step + ':' + f))
          bump('history_lookups')
          const expLine = cur.kind === 'modified' ? cur.mod.sites.throw.lo : pos.line
          const expCol = cur.kind === 'modified' ? null : pos.col
          if (got.file !== f || got.line !== expLine || (expCol !== null && got.col !== expCol)) {
            rep.violations.push({ sig: `history:stale-or-wrong-map:${cur.kind}`, what: `after history [${hist.join(', ')}] a lookup for ${path.basename(f)} (most recent rewrite: ${cur.kind}) at ${pos.line}:${pos.col} gave ${got.file}:${got.line}:${got.col}, expected line ${expLine}${expCol !== null ? ' col ' + expCol + ' (unchanged: the current version has no map)' : ''}`, witness: { history: hist.slice(), file: f, mostRecent: cur.kind, code: cur.mod.code, position: pos, got } })
          }
        }
      }
      bump('histories'); bump('history_steps', len)
      if (rep.samples.length < 1) rep.samples.push({ history: hist })
    }
    return rep
  },
  async replay (w) {
    const violations = []
    if (w.history) {
      // replay the history shape: modified version followed by the recorded kinds on one file
      const pkg = P.loadPackage()
      const rw = new pkg.Rewriter(CFG)
      const rng = new Rng(7, 'replay')
      const f = '/srv/c11h/replay/file0.js'
      const m1 = genModule(rng.fork(1), { instrumented: true })
      rw.rewrite(m1.code, f)
      const m2 = genModule(rng.fork(2), { instrumented: false })
      const resp = rw.rewrite(m2.code, f)
      const pos = findMarker(resp.content, `site-throw-${m2.id}`)
      const got = lookup(pkg, f, pos.line, pos.col)
      if (got.line !== pos.line || got.col !== pos.col) violations.push({ sig: 'history:stale-or-wrong-map:notmodified', what: `modified then not-modified: lookup at ${pos.line}:${pos.col} gave ${got.line}:${got.col}` })
    } else if (w.code) {
      const pkg = P.loadPackage()
      const rw = new pkg.Rewriter(w.config)
      const resp = rw.rewrite(w.code, w.file)
      const push = (kind, what) => violations.push({ sig: `sites:${kind}${w.chain ? ':chained' : ''}`, what })
      checkModule(pkg, { code: w.code, sites: w.sites, chain: w.chain, origSource: w.origSource }, w.file, resp, push, { stacks: 0, frames: 0 })
    }
    return { violations }
  }
}
