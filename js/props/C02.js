'use strict'
// C02 — erasing the instrumentation gives back the input (translation validation per program, acorn as independent parser).
const A = require('../lib/astmon')
const { plan, jobs } = require('../lib/structwork')
const { rewriteJobs, kind } = require('../lib/pipeline')
const { hashStr, clip } = require('../lib/util')
const SM = require('../lib/scopemon')

// returns {status, violations:[], stats}
function validate (job, resp, prefix) {
  const k = kind(resp)
  if (k !== 'ok-modified') return { status: k, violations: [] }
  const isMod = !!job.meta.module
  let a, b
  try { a = A.parse(job.code, { module: isMod, preserveParens: true }) } catch (e) {
    const p = A.parseAuto(job.code, { preserveParens: true })
    if (p.error) return { status: 'input-unparsable-by-acorn', violations: [] }
    a = p.ast
  }
  const outCode = resp.ok.raw.code
  const kindOut = a.sourceType === 'module'
  try { b = A.parse(outCode, { module: kindOut }) } catch (e) { return { status: 'output-unparsable', detail: e.message, violations: [] } } // C08 reports this
  const E = A.makeEraser(prefix)
  // "each injected temporary replaced at its use by the expression assigned to it": the replacement is only well defined when
  // ONE assignment reaches the use. The eraser works inside out (a nested injected sequence disappears before the enclosing one
  // is looked at), so a temporary that a nested sequence assigns again before the enclosing sequence reads it would be erased with
  // the OUTER value while the value that flows at run time is the inner one: the flow analysis of the raw output decides that first.
  const flow = SM.analyze(A.parse(outCode, { module: kindOut }), E.tempRe).problems /* on a parse of its own: the analysis marks nodes */.filter(p => p.kind === 'temp-clobbered-while-live' || p.kind === 'temp-read-before-write' || p.kind === 'temp-read-not-dominated-by-write')
  b = E.erase(b)
  const dup = A.foldDuplicatedTargets(b)
  a = A.normalize(a); b = A.normalize(b)
  const diffs = []
  A.eq(a, b, '', diffs)
  const left = E.leftovers(b)
  const violations = []
  for (const d of dup) {
    violations.push({ sig: `compound-assign-target-duplicated:${d.kind}`, what: `T += E with a non-simple target is emitted as T = T + E: ${d.kind} appears twice in the output (${job.meta.sigBase})`, witness: { code: job.code, config: job.config, cfgName: job.cfgName, meta: job.meta, finding: d } })
  }
  if (flow.length) {
    violations.push({ sig: (job.meta.sigBase === 'random' ? 'random' : job.meta.sigBase) + ':temporary-flow', what: `erasing is not well defined: temporary ${flow[0].name}: ${flow[0].kind} - the expression that reaches its use at run time is not the one the enclosing sequence assigned (replacing the use by it does not give the input)`, witness: { code: job.code, config: job.config, cfgName: job.cfgName, meta: job.meta, problem: flow[0], output: clip(outCode, 6000) } })
  }
  if (diffs.length || left.length) {
    const nestedOpt = /ConditionalExpression|ChainExpression|SequenceExpression/.test(diffs.join(' ')) && /\?\./.test(job.code)
    violations.push({
      sig: job.meta.sigBase === 'random' ? 'random:tree-diff' : job.meta.sigBase,
      what: `erased output differs from input: ${clip(diffs.slice(0, 3).join(' | '), 400)}${left.length ? ' leftover injected names: ' + left.slice(0, 3).join(',') : ''}${nestedOpt ? ' (optional chain involved)' : ''}`,
      witness: { code: job.code, config: job.config, cfgName: job.cfgName, meta: job.meta, diffs, leftovers: left.slice(0, 5), output: clip(outCode, 6000) }
    })
  }
  return { status: violations.length ? 'differs' : 'equal', violations, stats: E.stats }
}

module.exports = {
  id: 'C02',
  level: 'translation_validation',
  rule: 'each accepted, modified input is re-parsed (input and raw output) with acorn 8.16; the eraser undoes exactly the shapes the property enumerates (prologue, injected let, temp sequences, hook calls, .call re-dispatch, spread materialisation, optional-chain guards, arrow-body blocks) and the result must equal the input tree exactly, modulo parentheses, literal spelling, x=>E == x=>{return E}, T+=E == T=T+E for a simple T, L.m.call(L,..) == L.m(..) for a literal L. distinct_nontrivial = distinct inputs with >= 1 erased hook site. Workload additions: corpus files with enabled operations spliced onto randomly chosen expression nodes (25 wrappers x every expression slot; only texts V8 still compiles), the syntax zoo with LF/CRLF/CR line endings, a CRLF slice of the corpus. Precondition of erasure: one assignment reaches every use of a temporary (flow analysis of the raw output: no temporary is assigned again - by a nested injected sequence - between its assignment and its use); otherwise replacing the use by the expression of the enclosing sequence is not what flows at run time and the output is reported.',
  assumptions: [
    'acorn 8.16 (ES2025) is the independent parser; inputs it rejects are skipped and counted',
    'comments are not compared (C10 covers comment handling)',
    '`T = T + E` for `T += E` is accepted as identity only for T in {identifier, identifier.name, this.name, identifier[literal|identifier]}; for other targets the rewriter must emit the split form `(t0 = O)[t1 = K] = (…)`, a duplicated target is a violation'
  ],
  plan (ctx) { return plan(ctx, { quickCorpus: 320, exec: { quickRandom: 2500, quickFormsPerPlacement: 10, thoroughRandom: 30000 } }) },
  minEvaluations (ctx) { return ctx.tier === 'thorough' ? 3000 : 200 },
  async runShard (spec, ctx) {
    const js = jobs(spec, ctx)
    const { responses, prefixes } = rewriteJobs(js)
    const rep = { evaluations: 0, distinct: [], violations: [], inconclusive: [], samples: [], counters: {}, sets: {} }
    const bump = (k, n = 1) => { rep.counters[k] = (rep.counters[k] || 0) + n }
    for (let i = 0; i < js.length; i++) {
      const r = validate(js[i], responses[i], prefixes[i])
      bump('status:' + r.status)
      if (['abort', 'timeout', 'harness'].includes(r.status)) rep.inconclusive.push({ reason: 'harness-' + r.status, detail: js[i].meta.sigBase })
      if (r.stats) {
        rep.evaluations++
        if (js[i].meta.splices) bump('programs_with_spliced_operations')
        bump('hook_sites_erased', r.stats.hooks); bump('temp_sequences_erased', r.stats.seqs); bump('guards_erased', r.stats.guards); bump('redispatch_undone', r.stats.undispatch); bump('injected_lets_removed', r.stats.lets); bump('spreads_unmaterialised', r.stats.spreads)
        if (r.stats.hooks > 0) rep.distinct.push(hashStr(js[i].code + '|' + js[i].cfgName))
        if (rep.samples.length < 2 && r.status === 'equal' && js[i].code.length < 1500) rep.samples.push({ input: clip(js[i].code, 400), config: js[i].cfgName, erased: r.stats })
        else if (rep.samples.length < 2 && r.status === 'equal') rep.samples.push({ corpus_file: js[i].meta.name, bytes: js[i].code.length, config: js[i].cfgName, erased: r.stats })
      }
      for (const v of r.violations) rep.violations.push(v)
    }
    return rep
  },
  finalize (m) { return { coverage: { programs: m.evaluations, disagreements_checked: m.violations.length } } },
  async replay (w) {
    const { responses, prefixes } = rewriteJobs([{ code: w.code, config: w.config, cfgKey: 'replay', file: w.meta && w.meta.name ? '/app/lib/' + w.meta.name : undefined }])
    return { violations: validate({ code: w.code, meta: w.meta, config: w.config, cfgName: w.cfgName }, responses[0], prefixes[0]).violations }
  },
  validate
}
