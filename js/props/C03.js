'use strict'
// C03 — each hook call receives the true result and the true operands, in order.
// Dynamic part: recording hooks in the output realm, oracle recomputes every operation from the recorded operands.
// Structural part: argument list of every emitted hook site vs the operand list of its first argument.
const vm = require('vm')
const A = require('../lib/astmon')
const H = require('../lib/hooksites')
const { plan: structPlan, jobs: structJobs } = require('../lib/structwork')
const { rewriteJobs, kind } = require('../lib/pipeline')
const { run, compile } = require('../lib/world')
const { dstMap } = require('../lib/configs')
const { hashStr, clip } = require('../lib/util')

function interpretations (name, dm) {
  const out = []
  if (dm.plus === name) out.push({ op: 'plus' })
  if (dm.tpl === name) out.push({ op: 'tpl' })
  const srcs = []
  for (const [src, dst] of dm.methods) if (dst === name) srcs.push(src)
  if (srcs.length) out.push({ op: 'method', srcs })
  return out
}

function isNative (fn) { try { return /\{\s*\[native code\]\s*\}\s*$/.test(Function.prototype.toString.call(fn)) } catch (e) { return false } }
function isWorldPure (fn) { return typeof fn === 'function' && /^w\./.test(fn.name) && !/\.(cb|id)\d*$/.test(fn.name) && !/\.fthrow\d*$/.test(fn.name) }
function sameValue (a, b, world) { return Object.is(a, b) || (a !== null && typeof a === 'object' && b !== null && typeof b === 'object' && world.sum(a) === world.sum(b)) }

// returns null when some interpretation validates, else a description
function validateCall (rec, dm, world) {
  const cands = interpretations(rec.name, dm)
  if (!cands.length) return { kind: 'unknown-hook-name', detail: rec.name }
  const fails = []
  for (const c of cands) {
    try {
      if (c.op === 'plus') {
        if (rec.ops.length !== 2) { fails.push({ kind: 'plus-arity', detail: `${rec.ops.length} operands` }); continue }
        const exp = rec.ops[0] + rec.ops[1]
        if (!Object.is(exp, rec.res)) { fails.push({ kind: 'plus-result', detail: `hook got result ${world.sum(rec.res)} but left + right = ${world.sum(exp)}` }); continue }
        return null
      }
      if (c.op === 'tpl') {
        if (typeof rec.res !== 'string') { fails.push({ kind: 'tpl-result-type', detail: typeof rec.res }); continue }
        if (rec.ops.length === 0) { fails.push({ kind: 'tpl-no-operands', detail: '' }); continue }
        let pos = 0
        let ok = true
        for (const o of rec.ops) {
          const s = `${o}`
          const at = rec.res.indexOf(s, pos)
          if (at < 0) { ok = false; fails.push({ kind: 'tpl-operand-not-in-result', detail: `substitution ${world.sum(o)} does not occur (in order) in result ${clip(rec.res, 80)}` }); break }
          pos = at + s.length
        }
        if (!ok) continue
        // conservation: every world/literal marker of the result is accounted for by an operand or is literal text (⟦L..⟧ / static chunk)
        return null
      }
      if (c.op === 'method') {
        if (rec.ops.length < 2) { fails.push({ kind: 'method-arity', detail: `${rec.ops.length} operands` }); continue }
        const [fn, recv, ...args] = rec.ops
        if (typeof fn !== 'function') { fails.push({ kind: 'method-fn-not-function', detail: world.sum(fn) }); continue }
        // the function must be the one the receiver yields for one of the configured source names (or a builtin of that name)
        let identityOk = false
        for (const src of c.srcs) {
          if (fn.name === src || fn.name === 'w.' + src || (typeof fn.name === 'string' && fn.name.endsWith('.' + src))) identityOk = true
          try { if (recv !== null && recv !== undefined && recv[src] === fn) identityOk = true } catch (e) {}
        }
        if (!identityOk) { fails.push({ kind: 'method-wrong-function', detail: `function ${fn.name} is not ${c.srcs.join('/')} of the receiver` }); continue }
        // a function among the arguments (a replacer, a callback) is program code: recomputing the call would run it a second
        // time and disturb the program's state - such calls are validated by identity of function and receiver only
        if ((isNative(fn) || isWorldPure(fn)) && !args.some(a => typeof a === 'function')) {
          let exp
          try { exp = fn.call(recv, ...args) } catch (e) { fails.push({ kind: 'method-recompute-throws', detail: String(e && e.message).slice(0, 80) }); continue }
          if (!sameValue(exp, rec.res, world)) { fails.push({ kind: 'method-result', detail: `hook got result ${world.sum(rec.res)} but fn.call(receiver, ...args) = ${world.sum(exp)}` }); continue }
        }
        return null
      }
    } catch (e) { fails.push({ kind: 'oracle-error', detail: String(e && e.message).slice(0, 100) }) }
  }
  return fails[0]
}

// Marked-operand oracle. Every world atom has a value that names it (`w.s7` is ' ⟦w.s7⟧ ', `w.f9()` is ' ⟦w.f9()⟧ '). When the
// operand handed to a hook is a temporary that the enclosing injected sequence assigned from such an atom, the value the hook
// receives at run time must be that atom's value: anything else means the temporary was overwritten between its assignment and
// the hook call (an operand "replaced by a different value" although the call and the hook agree with each other).
// Returns { text: the content with every hook call site numbered (`_ddiast.$s[n].name(`), expected: site -> [marker|undefined, ...] }
function tagSites (content, isModule) {
  let ast
  try { ast = A.parse(content, { module: isModule }) } catch (e) { return null }
  const sites = []
  const atomValue = (e) => {
    if (!e) return undefined
    if (e.type === 'MemberExpression' && !e.computed && e.object.type === 'Identifier' && e.object.name === 'w' && /^s\d+$/.test(e.property.name)) return ' ⟦w.' + e.property.name + '⟧ '
    if (e.type === 'CallExpression' && e.arguments.length === 0 && !e.optional && e.callee.type === 'MemberExpression' && !e.callee.computed && !e.callee.optional && e.callee.object.type === 'Identifier' && e.callee.object.name === 'w' && /^f\d+$/.test(e.callee.property.name)) return ' ⟦w.' + e.callee.property.name + '()⟧ '
    return undefined
  }
  ;(function visit (n, anc) {
    if (!A.isObj(n)) return
    if (Array.isArray(n)) { n.forEach(c => visit(c, anc)); return }
    if (!n.type) return
    if (A.isHookCall(n)) {
      // operands after a spread have no fixed run-time index: only the ones before the first spread are decided
      const firstSpread = n.arguments.slice(1).findIndex(a => a.type === 'SpreadElement')
      const expected = n.arguments.slice(1).map((a, k) => {
        if (firstSpread >= 0 && k >= firstSpread) return undefined
        if (a.type !== 'Identifier' || !/^__datadog_/.test(a.name)) return undefined
        // nearest enclosing sequence that assigns the temporary before the expression containing this site
        const path = anc.concat([n])
        for (let i = path.length - 1; i >= 1; i--) {
          const seq = path[i - 1]
          if (seq.type !== 'SequenceExpression') continue
          const idx = seq.expressions.indexOf(path[i])
          for (let j = idx - 1; j >= 0; j--) { const x = seq.expressions[j]; if (x.type === 'AssignmentExpression' && x.operator === '=' && x.left.type === 'Identifier' && x.left.name === a.name) return atomValue(x.right) }
        }
        return undefined
      })
      sites.push({ at: n.callee.object.end, expected })
    }
    const next = anc.concat([n])
    for (const k of Object.keys(n)) { if (k === 'type' || k === 'start' || k === 'end' || k === 'loc' || k.startsWith('__')) continue; const v = n[k]; if (A.isObj(v)) visit(v, next) }
  })(ast, [])
  sites.sort((x, y) => x.at - y.at)
  let text = ''; let from = 0
  sites.forEach((s, id) => { text += content.slice(from, s.at) + '.$s[' + id + ']'; from = s.at })
  text += content.slice(from)
  return { text, expected: sites.map(s => s.expected), known: sites.reduce((a, s) => a + s.expected.filter(x => x !== undefined).length, 0) }
}

async function dynamicCheck (job, resp) {
  const isModule = !!job.meta.module
  if (compile(job.code, isModule)) return { status: 'invalid-input' }
  const dm = dstMap(job.config)
  const bad = []
  let calls = 0
  let markedOperands = 0
  const tagged = tagSites(resp.ok.content, isModule)
  const onHook = (rec, world) => {
    calls++
    const f = validateCall(rec, dm, world)
    if (f && bad.length < 3) bad.push({ f, rec: { name: rec.name, res: world.sum(rec.res), ops: rec.ops.map(o => world.sum(o)) } })
    const exp = tagged && rec.site !== undefined ? tagged.expected[rec.site] : null
    if (exp) for (let k = 0; k < exp.length; k++) if (exp[k] !== undefined) { markedOperands++; if (rec.ops[k] !== exp[k] && bad.length < 3) bad.push({ f: { kind: 'operand-is-not-the-value-assigned-to-its-temporary', detail: `operand #${k + 1} is a temporary assigned from an expression whose value is ${exp[k].trim()}, the hook received ${world.sum(rec.ops[k])}` }, rec: { name: rec.name, res: world.sum(rec.res), ops: rec.ops.map(o => world.sum(o)) } }) }
  }
  const ident = await run(resp.ok.content, { module: isModule, hooks: 'identity' })
  const recd = await run(tagged ? tagged.text : resp.ok.content, { module: isModule, hooks: 'record', onHook })
  if (ident.timedOut || recd.timedOut) return { status: 'timeout' }
  const out = { status: 'ran', calls, bad, events: recd.log.length, markedOperands }
  // single evaluation: recording the operands must not change the effect history
  if (ident.log.join('\n') !== recd.log.join('\n') || ident.completion !== recd.completion) out.recordingChangedEffects = true
  return out
}

function structuralCheck (job, resp) {
  let b
  try { b = A.parse(resp.ok.raw.code, { module: !!job.meta.module }) } catch (e) { const p = A.parseAuto(resp.ok.raw.code); if (p.error) return { status: 'output-unparsable' }; b = p.ast }
  const sites = A.census(b).sites
  const problems = []
  // each spread operand of a hook call must be a temporary assigned from `[...x]` in the same injected sequence
  // (one evaluation of the iterable serves both the call and the hook)
  A.walk(b, (n) => {
    if (n.type !== 'SequenceExpression') return
    const defs = new Map()
    for (const e of n.expressions.slice(0, -1)) if (e.type === 'AssignmentExpression' && e.operator === '=' && e.left.type === 'Identifier') defs.set(e.left.name, e.right)
    const last = n.expressions[n.expressions.length - 1]
    if (!A.isHookCall(last)) return
    for (const a of last.arguments.slice(1)) {
      if (a.type !== 'SpreadElement') continue
      if (a.argument.type === 'Literal') continue // a spread literal is copied like any literal operand (nothing to evaluate twice)
      const d = a.argument.type === 'Identifier' ? defs.get(a.argument.name) : null
      const ok = d && d.type === 'ArrayExpression' && d.elements.length === 1 && d.elements[0] && d.elements[0].type === 'SpreadElement'
      if (!ok) problems.push({ name: last.callee.property.name, kind: 'spread-not-materialised-once', detail: 'a spread operand of the hook is not a temporary holding [...iterable]: the iterable is iterated once for the call and again for the hook', text: clip(resp.ok.raw.code.slice(last.start, last.end), 200) })
    }
  })
  for (const s of sites) for (const p of H.checkSite(s.node)) problems.push(Object.assign({ name: s.name, text: clip(resp.ok.raw.code.slice(s.node.start, s.node.end), 200) }, p))
  return { status: 'ok', sites: sites.length, problems }
}

async function check (job, resp, opts = {}) {
  const violations = []
  const k = kind(resp)
  const out = { k }
  if (k !== 'ok-modified') return { out, violations }
  const sigBase = job.meta.placement ? `catalog:${job.meta.placement}:${job.meta.form}` : (job.meta.kind === 'corpus' ? 'corpus' : 'random')
  const mk = (kindS, what, extra) => ({ sig: job.meta.placement && !/^(bare-plus-operand-omitted|apply-hole)$/.test(kindS) ? sigBase : `${job.meta.placement ? 'catalog' : sigBase}:${kindS}`, what, witness: Object.assign({ code: job.code, config: job.config, cfgName: job.cfgName, meta: job.meta }, extra || {}) })
  const st = structuralCheck(job, resp)
  out.struct = st
  if (st.problems) for (const p of st.problems) violations.push(mk(p.kind, `hook site _ddiast.${p.name}: ${p.kind}${p.detail ? ' (' + p.detail + ')' : ''} in \`${p.text}\``, { problem: p }))
  const knownShape = st.problems && st.problems.some(p => p.kind === 'bare-plus-operand-omitted' || p.kind === 'apply-hole')
  out.knownShape = knownShape
  // programs containing a site with a recorded structural finding (D6/D20) are not re-judged dynamically unless they are the canonical witnesses
  if (opts.exec && !(knownShape && !job.meta.known)) {
    const d = await dynamicCheck(job, resp)
    out.dyn = d
    if (d.bad) for (const b of d.bad) violations.push(mk('dyn-' + b.f.kind, `hook ${b.rec.name}(${b.rec.res} | ${b.rec.ops.join(' | ')}): ${b.f.kind}: ${b.f.detail}`, { hookCall: b.rec }))
    if (d.recordingChangedEffects) violations.push(mk('dyn-effects-differ-when-recording', 'effect history with recording hooks differs from identity hooks', {}))
  }
  return { out, violations }
}

module.exports = {
  id: 'C03',
  level: 'exploration',
  rule: 'dynamic: every rewritten catalogue/random program is executed with recording hooks; for each hook invocation (name, result, operands) an oracle recomputes the original operation from exactly the recorded operands with world logging muted (left + right; substitutions occur in order in the template result; fn.call(receiver, ...args) for native/pure functions, fn being the function the receiver yields for a configured source name) and requires the recorded result to be that value. structural: on every emitted hook site (also corpus files and never-executed paths) the argument list must equal, token for token, the operand list of the first argument in evaluation order, each operand being a single evaluation (identifier/temporary/literal/spread of one). distinct_nontrivial = distinct (input, config) with >= 1 hook site checked. Workload additions: the syntax zoo (49 programs x LF/CRLF/CR line endings), and operation splicing - zoo programs, every seventh catalogue program and every fifth random program also run with further enabled operations grafted onto randomly chosen sub-expressions in a value-preserving way ((x is a primitive ? OP(x) : 0, x)).',
  assumptions: ['template results are checked by ordered containment of the substitution strings (static chunks are not known at run time; C01 compares the final values)', 'functions with program-visible side effects (callbacks, identity probes) are not re-invoked by the oracle, and a native method is not recomputed when one of its arguments is a function of the program (replacer / callback)', 'a literal operand is passed to the hook as a second copy of the literal; for a regular-expression literal that is a distinct RegExp object with the same source and flags - accepted as the same operand value'],
  plan (ctx) { return structPlan(ctx, { quickCorpus: 250, exec: { quickRandom: 2500, quickFormsPerPlacement: 10, thoroughRandom: 30000 } }) },
  minEvaluations () { return 300 },
  async runShard (spec, ctx) {
    const js = structJobs(spec, ctx)
    const { responses } = rewriteJobs(js)
    const rep = { evaluations: 0, distinct: [], violations: [], inconclusive: [], samples: [], counters: {}, sets: { hook_names_invoked: [] } }
    const bump = (k, n = 1) => { rep.counters[k] = (rep.counters[k] || 0) + n }
    for (let i = 0; i < js.length; i++) {
      const exec = spec.kind !== 'corpus'
      const { out, violations } = await check(js[i], responses[i], { exec })
      bump('status:' + out.k)
      if (['abort', 'timeout', 'harness'].includes(out.k)) { rep.inconclusive.push({ reason: 'harness-' + out.k, detail: js[i].meta.sigBase }); continue }
      if (out.k !== 'ok-modified') continue
      rep.evaluations++
      if (out.struct && out.struct.sites) { bump('hook_sites_checked_structurally', out.struct.sites); rep.distinct.push(hashStr(js[i].code + js[i].cfgName)) }
      if (out.knownShape) bump('programs_with_known_shape_site')
      if (out.dyn && out.dyn.status === 'ran') { bump('programs_executed_with_recording_hooks'); bump('hook_invocations_validated', out.dyn.calls); bump('operands_compared_with_the_value_of_their_source_atom', out.dyn.markedOperands || 0); bump('world_events', out.dyn.events) }
      if (out.dyn && out.dyn.status === 'timeout') rep.inconclusive.push({ reason: 'exec-timeout', detail: js[i].meta.sigBase })
      if (rep.samples.length < 2 && out.dyn && out.dyn.calls > 2 && js[i].code.length < 900) rep.samples.push({ input: clip(js[i].code, 500), config: js[i].cfgName, hook_invocations: out.dyn.calls, hook_sites: out.struct.sites })
      for (const v of violations) rep.violations.push(v)
    }
    return rep
  },
  async replay (w) {
    const job = { code: w.code, meta: w.meta, config: w.config, cfgName: w.cfgName }
    const { responses } = rewriteJobs([Object.assign({ cfgKey: 'replay' }, job)])
    return { violations: (await check(job, responses[0], { exec: w.meta.kind !== 'corpus' })).violations }
  }
}
