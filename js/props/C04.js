'use strict'
// C04 — every enabled operation inside function bodies and blocks is instrumented
// (translation validation of each output against a policy model written from the statement).
const { plan, jobs } = require('../lib/structwork')
const { rewriteJobs } = require('../lib/pipeline')
const { analyze } = require('../lib/structan')
const { hashStr, clip } = require('../lib/util')

function describe (job, node) { return clip(job.code.slice(node.start, Math.min(node.end, node.start + 90)).replace(/\s+/g, ' '), 100) }

function check (job, resp, prefix) {
  const r = analyze(job, resp, prefix)
  const violations = []
  const mk = (sigTail, what, node, extra) => ({
    sig: job.meta.placement ? `catalog:${job.meta.placement}:${job.meta.form}` : sigTail,
    what,
    witness: Object.assign({ code: job.code, config: job.config, cfgName: job.cfgName, meta: job.meta, at: node ? { start: node.start, end: node.end, text: describe(job, node) } : null }, extra || {})
  })
  if (r.notmodified && r.required > 0) {
    const n = r.requiredNodes[0]
    const tail = n.__req.applyNonLiteralList ? 'missed:proto-apply-nonliteral-arglist' : `missed:${n.__req.op}${n.__req.method ? ':' + (n.__req.recv || 'proto') : ''}:file-not-modified`
    violations.push(mk(tail, `file reported not modified but the policy requires ${r.required} hook(s), first: ${JSON.stringify(n.__req)} at \`${describe(job, n)}\``, n))
  }
  if (r.aligned) {
    for (const m of r.missed) {
      const tail = m.req.applyNonLiteralList ? 'missed:proto-apply-nonliteral-arglist' : `missed:${m.req.op}${m.req.method ? ':' + (m.req.recv || 'proto') : ''}`
      violations.push(mk(tail, `required operation not wrapped by _ddiast.${m.req.dst}: \`${describe(job, m.node)}\` (${JSON.stringify(m.req)})`, m.node))
    }
  }
  return { r, violations }
}

module.exports = {
  id: 'C04',
  level: 'translation_validation',
  rule: 'policy model required(inputAST, config) (written from the property text) marks every node that must be hooked; the erased+aligned output (see C02) must carry a hook annotation with the configured name on each of them. Workload: corpus files, catalogue placements x forms, random programs, under rotating configurations. distinct_nontrivial = distinct (input, config) with >= 1 required operation located. Workload additions: corpus files with enabled operations spliced onto randomly chosen expression nodes (25 wrappers x every expression slot; only texts V8 still compiles), the syntax zoo with LF/CRLF/CR line endings, a CRLF slice of the corpus. Package layer: call histories through the real main.js (shared CacheRewriter / NonCacheRewriter instances, same paths asked again with other texts - also one-character edits of equal length): every content handed out must carry the hook sites of the native rewriter\'s own answer to (configuration, text, file name).',
  assumptions: [
    'the policy demands only what the statement states: literal-only sums, literal this-arguments of prototype calls, apply() without an argument list, spread this-arguments, bare calls, expression-bodied arrows outside any block and receivers outside the whitelist are not demanded',
    'files whose erased output does not align with the input (a C02 violation) are inconclusive for C04 and counted',
    'String.prototype.m.apply(x, nonArrayLiteral) is demanded by the letter of the statement and recorded as known finding D19'
  ],
  plan (ctx) {
    const shards = plan(ctx, { quickCorpus: 320, exec: { quickRandom: 2500, quickFormsPerPlacement: 10, thoroughRandom: 30000 } })
    // the instrumentation as the package API hands it out: over call histories through the real main.js every content must carry
    // the hook sites of the native rewriter's own answer to the same (configuration, text, file name) - the policy-checked instrumentation
    for (let k = 0, n = ctx.tier === 'thorough' ? 96 : 10; k < n; k++) shards.push({ kind: 'package', stream: 6000 + k, histories: 3 })
    return shards
  },
  minEvaluations (ctx) { return ctx.tier === 'thorough' ? 3000 : 200 },
  async runShard (spec, ctx) {
    if (spec.kind === 'package') {
      const PH = require('../lib/pkghistory')
      const A = require('../lib/astmon')
      const { Rng, hashStr } = require('../lib/util')
      const rep = { evaluations: 0, distinct: [], violations: [], inconclusive: [], samples: [], counters: {}, sets: { placements: [], forms: [] } }
      const bump = (k, n = 1) => { rep.counters[k] = (rep.counters[k] || 0) + n }
      const sitesOf = (r) => { if (!r || r.error !== undefined || typeof r.content !== 'string') return null; const p = A.parseAuto(r.content); return p.ast ? A.census(p.ast).sites.map(x => x.name).sort().join(',') : null }
      for (let h = 0; h < spec.histories; h++) {
        const rng = new Rng(ctx.seed, 'c04pkg', spec.stream, h)
        let hist
        try { hist = PH.runHistory(rng, `c04_${spec.stream}_${h}`) } catch (e) { rep.inconclusive.push({ reason: 'package-history-failed', detail: String(e && e.message).slice(0, 200) }); continue }
        bump('package_histories')
        const shape = hist.calls.map(c => `${c.kind}@${c.file.split('/').slice(-3).join('/')}`)
        const seen = new Set()
        for (const c of hist.calls) {
          // reference: the native rewriter's own answer to (config, code, file) - no package code in between (a fresh package
          // instance would share a defect that does not depend on the history)
          const want = c.native && c.native.metrics && c.native.metrics.status === 'notmodified' ? '' : sitesOf(c.native); const got = c.response && c.response.metrics && c.response.metrics.status === 'notmodified' && c.response.content === c.code ? (sitesOf({ content: c.code }) || '') : sitesOf(c.response)
          if (want === null) continue // the native call fails (or is unparsable): nothing is demanded
          rep.evaluations++; bump('package_calls')
          rep.distinct.push(hashStr(spec.stream + ':' + h + ':' + c.step))
          if (got !== want) {
            const sig = `package:missed:${c.kind}`
            if (seen.has(sig)) continue
            seen.add(sig)
            rep.violations.push({ sig, what: `through main.js (${c.rewriter}, config ${c.cfgName}): call #${c.step} of history [${shape.join(', ')}] for ${c.file}: the content handed out has the hook sites [${got}], the native rewriter called directly instruments [${want}]`, witness: { packageHistory: hist.calls.map(x => ({ kind: x.kind, file: x.file, code: x.code, cfgName: x.cfgName, rewriter: x.rewriter })), step: c.step } })
          }
        }
        if (rep.samples.length < 1) rep.samples.push({ package_history: shape })
      }
      return rep
    }
    const js = jobs(spec, ctx)
    const { responses, prefixes } = rewriteJobs(js)
    const rep = { evaluations: 0, distinct: [], violations: [], inconclusive: [], samples: [], counters: {}, sets: { placements: [], forms: [] } }
    const bump = (k, n = 1) => { rep.counters[k] = (rep.counters[k] || 0) + n }
    for (let i = 0; i < js.length; i++) {
      const { r, violations } = check(js[i], responses[i], prefixes[i])
      bump('status:' + r.status)
      if (['abort', 'timeout', 'harness'].includes(r.status)) { rep.inconclusive.push({ reason: 'harness-' + r.status, detail: js[i].meta.sigBase }); continue }
      if (r.status !== 'ok-modified' && r.status !== 'ok-notmodified') continue
      if (r.status === 'ok-modified' && !r.aligned) { bump('unaligned'); if (!(js[i].meta.known)) rep.inconclusive.push({ reason: 'unaligned-output', detail: js[i].meta.sigBase }); continue }
      rep.evaluations++
        if (js[i].meta.splices) bump('programs_with_spliced_operations')
      bump('required_operations', r.required)
      if (r.aligned) { bump('hooked_nodes', r.hooked); bump('required_and_hooked', r.required - r.missed.length) }
      if (r.required > 0) rep.distinct.push(hashStr(js[i].code + '|' + js[i].cfgName))
      if (js[i].meta.placement) {
        rep.sets.placements.push(js[i].meta.placement); rep.sets.forms.push(js[i].meta.form)
        const cfgFull = js[i].cfgName === 'FULL' || js[i].cfgName === 'RENAMED' || js[i].cfgName === 'COMMENTS' || js[i].cfgName === 'NO_PREFIX_OPTION'
        if (cfgFull && js[i].meta.demanded && r.required === 0) { bump('planted_not_located'); rep.inconclusive.push({ reason: 'planted-op-not-located-by-policy', detail: js[i].meta.sigBase }) } else if (cfgFull && js[i].meta.demanded) bump('planted_located')
      }
      if (rep.samples.length < 2 && r.required > 0 && js[i].code.length < 900) rep.samples.push({ input: clip(js[i].code, 500), config: js[i].cfgName, required: r.required, hooked: r.hooked })
      for (const v of violations) rep.violations.push(v)
    }
    return rep
  },
  finalize (m) { return { coverage: { programs: m.evaluations, disagreements_checked: m.violations.length } } },
  async replay (w) {
    const { responses, prefixes } = rewriteJobs([{ code: w.code, config: w.config, cfgKey: 'replay' }])
    return { violations: check({ code: w.code, meta: w.meta, config: w.config, cfgName: w.cfgName }, responses[0], prefixes[0]).violations }
  },
  check
}
