'use strict'
// C13 — the rewriter is total: result or diagnostic error, never panic / abort / hang (bounded-progress restatement).
// Sanitizer tiers: valgrind memcheck on the release binary (quick + thorough), ASan and debug builds (thorough).
const fs = require('fs')
const corpus = require('../lib/corpus')
const cat = require('../lib/gen_catalog')
const { genProgram } = require('../lib/gen_random')
const G = require('../lib/gen_hostile')
const { Harness } = require('../lib/rw')
const { cfg, FULL, STRING_METHODS } = require('../lib/configs')
const { SETS } = require('../lib/cfgset')
const { Rng, hashStr, clip } = require('../lib/util')

const HANG_BUDGET_MS = 60000

function configs (rng) {
  return rng.weighted([
    [4, FULL],
    [2, SETS.RENAMED],
    [2, cfg({ chain: true, comments: true, methods: STRING_METHODS, verbosity: 'DEBUG' })],
    [2, cfg({ chain: true, comments: false, methods: STRING_METHODS })],
    [1, cfg({ chain: false, comments: true, methods: ['trim'], literals: false, verbosity: 'OFF' })],
    [1, cfg({ prefix: null, chain: true, comments: true })],
    [1, cfg({ prefix: '', methods: [] })],
    [1, { csiMethods: [] }],
    [1, cfg({ prefix: 'x'.repeat(300), chain: true })],
    [2, hostileConfig(rng)]
  ])
}

// configurations nobody should write: names that are not identifiers, empty and enormous names, duplicates, odd verbosity
// strings. Only totality is judged for them (the output need not be valid JavaScript when the hook names are not).
const ODD_NAMES = ['', ' ', 'a-b', 'x y', 'class', '}); throw 1; ({', '__proto__', 'constructor', 'ñ€😀', '\u0061', 'a'.repeat(5000), '0', '\n', '`${x}`', "'", '"', '\\', '\uFEFF', 'plusOperator', 'tplOperator', 'trim']
function hostileConfig (rng) {
  const c = {}
  if (rng.bool(0.7)) c.localVarPrefix = rng.pick(ODD_NAMES)
  const n = rng.pick([0, 1, 2, 5, 40])
  c.csiMethods = []
  for (let i = 0; i < n; i++) {
    const m = { src: rng.bool(0.5) ? rng.pick(STRING_METHODS.concat(['plusOperator', 'tplOperator'])) : rng.pick(ODD_NAMES) }
    if (rng.bool(0.6)) m.dst = rng.pick(ODD_NAMES)
    if (rng.bool(0.4)) m.operator = rng.bool()
    if (rng.bool(0.3)) m.allowedWithoutCallee = rng.bool()
    c.csiMethods.push(m)
  }
  if (rng.bool(0.5)) c.telemetryVerbosity = rng.pick(['', 'debug', 'DEBUG ', 'OFF', 'off', 'nonsense', 'INFORMATION', 'MANDATORY', 'ñ'])
  if (rng.bool(0.5)) c.chainSourceMap = rng.bool()
  if (rng.bool(0.5)) c.comments = rng.bool()
  if (rng.bool(0.5)) c.literals = rng.bool()
  return c
}

function baseProgram (rng, files) {
  const k = rng.int(10)
  if (k < 4) { const f = rng.pick(files); const code = corpus.read(f.name); return code.length > 40000 ? code.slice(0, 40000) : code }
  if (k < 7) { const pairs = cat.allPairs(); const [p, f] = pairs[rng.int(pairs.length)]; return cat.build(p, f, { strict: rng.bool(), module: rng.bool(0.2) }).code }
  return genProgram(rng.fork('g'), { strict: rng.bool(), maxStmts: 20 }).code
}

// inputs whose CONTENT or SIZE is unusual (valid programs): bytes at slicing boundaries, lengths at bounds, many items
function contentSizeProgram (rng, small) {
  const k = rng.int(14)
  const big = (arr) => small ? arr[0] : rng.pick(arr)
  const mb = ['é', '€', '😀', 'a', '\u0000', '\uFEFF', '\u200b', 'ﬃ']
  const lit = (bytes) => { let s = ''; let n = 0; while (n < bytes) { const c = rng.pick(mb); const b = Buffer.byteLength(c); if (n + b > bytes) { s += 'a'; n++ } else { s += c; n += b } } return JSON.stringify(s) }
  if (k === 0) return `function f(a) { return a + ${[9, 10, 11, 12, 255, 256, 257, 258, 1024, small ? 2000 : 20000].map(n => lit(n)).join(' + ')} }`
  if (k === 1) return `function f(a) { const s = '\\ud800' + a + '\\udc00\\ud800' + "\\u{10FFFF}" + '\\0' + a.trim(); return s }`
  if (k === 2) return 'function f(a) { return ' + Array.from({ length: big([257, 255, 256, 300, 600]) }, (_, i) => `a.m${i}()`).join(' + ') + ' }' // hundreds of temporaries in one statement
  if (k === 3) return 'function f(a) {\n' + Array.from({ length: big([256, 1000, 2000]) }, (_, i) => `  const l${i} = 'literal number ${i} is long enough';`).join('\n') + '\n  return a + l0\n}' // many literals
  if (k === 4) return 'function f(a) {\n' + Array.from({ length: big([300, 1200]) }, (_, i) => `  a += a.trim() + \`\${a}${i}\`;`).join('\n') + '\n  return a\n}' // many hook sites
  if (k === 5) return `function f(a) { return a + '${'x'.repeat(big([65536, 65535, 100000]))}' }` // very long line
  if (k === 6) return `function ${'ident' + 'x'.repeat(big([256, 255, 1000, 20000]))}(a) { return a + 1 }`
  if (k === 7) return `// ${lit(300)}\n/* ${'é'.repeat(200)} \u0000 */\nfunction f(a) { return a + /[é€😀]/u.source + \`é\${a}😀\` }`
  if (k === 8) return 'function f(a) { return a + "x" }\r// lone CR above\r\nfunction g(b) { return b.trim() }\u2028var z = 1'
  if (k === 9) return `function f(a) { return a${' + a'.repeat(big([300, 500, 1500]))} }` // long flat sum (left-nested binary)
  if (k === 10) return `function f(a) { return \`${'${a}'.repeat(big([256, 255, 600]))}\` }`
  if (k === 11) return `function f(a) { return a.concat(${Array.from({ length: big([256, 255, 800]) }, (_, i) => 'a' + (i % 7 ? '' : '()')).join(', ')}) }`
  if (k === 12) return `function f(a) { return ${'('.repeat(40)}a + 1${')'.repeat(40)} + ${'['.repeat(40)}a${']'.repeat(40)} }`
  return `function f(a) { 'use strict'; return a + ${lit(11)} }\n//# sourceMappingURL=${'m'.repeat(rng.pick([1, 300, 5000]))}.map`
}

// syntax that is valid in some dialect, stage-N proposal or future edition: the parser either refuses it (an error value) or
// accepts it - and then the printer has to cope with the node. Always next to instrumented code, so that an accepted file is printed.
const PROPOSALS = [
  "export v from 'mod'", "export v, { w } from 'mod'", "export v, * as ns from 'mod'", "export default from 'mod'", "export * as ns from 'mod'", "export { default } from 'mod'", "export { x as 'string name' } from 'mod'",
  "import defer * as d from 'mod'", "import source s from 'mod'", "import j from './j.json' with { type: 'json' }", "import j2 from './j.json' assert { type: 'json' }", "import x, * as y from 'mod'", "import { 'string name' as z } from 'mod'",
  '@dec class A {}', '@dec export class B {}', 'export @dec class C {}', 'class D { @dec m() {} @dec static accessor p = 1; @(foo.bar()) #q = 2 }', 'class E { accessor x = a + b; static accessor #y }',
  'using res = getResource()', 'await using ares = getAsync()', 'for (using x of xs) {}', 'const v = do { 1 }', 'const p = a |> f', 'const q = a?.[b]?.(c) ?? d', 'const r = #{ a: 1 }', 'const t = #[1, 2]',
  'function g() { return function.sent }', 'const b = 1n ** 2n', 'label: function lf() {}', 'if (a) function decl() {}', 'const re = /[\\p{L}--[a-z]]/v', 'const u = a ??= b', 'throw.expr', 'const th = () => throw new Error()',
  'enum E1 { A, B }', 'type T = string', 'let x: number = 1', 'function gen<T>(a: T) { return a }', 'abstract class F {}', 'declare const dc: number', 'namespace NS {}', 'const as1 = a as string', 'const sat = a satisfies B',
  'module M {}', 'async function* ag() { for await (const x of y) yield* x }', 'class G { static { await_: 1 } }', 'new.target', 'import.meta.url', "import('mod').then(m => m)", 'import.source("mod")', 'super.x',
  '<div>{a + b}</div>', 'const jsx = <A b={c + d} />', '<!-- html comment', '--> html close', '#!/usr/bin/env node', 'yield a + b', 'await a + b', 'let async; async\nfunction af() {}', 'var let_ = 1; let\n[a] = [1]'
]
function proposalProgram (rng) {
  const parts = []
  for (let i = 0, n = rng.range(1, 3); i < n; i++) parts.push(rng.pick(PROPOSALS))
  const body = rng.pick(['function f(a, b) { return a + b }', 'export function h(a) { return a.trim() + `${a}` }', 'class K { m(a) { return a?.trim().concat(a) } }', '{ let s = x; s += y() }'])
  return rng.bool(0.5) ? parts.join('\n') + '\n' + body + '\n' : body + '\n' + parts.join('\n') + '\n'
}

function genRequest (rng, files, small) {
  const kind = rng.weighted([[5, 'mutated'], [1.5, 'random-text'], [1, 'valid'], [1, 'deep'], [3, 'map-ref'], [0.5, 'big'], [0.8, 'content-size'], [0.8, 'proposal-syntax']])
  let code
  if (kind === 'mutated') code = G.mutate(baseProgram(rng, files), rng)
  else if (kind === 'random-text') code = G.randomText(rng)
  else if (kind === 'deep') code = G.deepNesting(rng)
  else if (kind === 'content-size') code = contentSizeProgram(rng, small)
  else if (kind === 'proposal-syntax') code = proposalProgram(rng)
  else if (kind === 'big') code = ('function f' + rng.int(9) + '(a, b) { return a + b.trim() + `${a}` }\n').repeat(rng.pick([500, 2000]))
  else code = baseProgram(rng, files)
  let file = rng.bool(0.35) ? rng.pick(G.FILE_NAMES) : '/srv/app/lib/mod' + rng.int(50) + '.js'
  let reader
  const meta = { kind }
  if (kind === 'map-ref' || rng.bool(0.25)) {
    if (kind === 'map-ref') { code = rng.bool(0.3) ? G.mutate(baseProgram(rng, files), rng, 1) : baseProgram(rng, files); if (rng.bool(0.5)) file = rng.pick(G.FILE_NAMES) }
    const ref = G.mapReference(rng, file)
    code = code + ref.comment
    reader = ref.reader
    meta.ref = ref.kind
  }
  if (code.length > 262144) code = code.slice(0, 262144)
  return { code, file, reader, meta, config: configs(rng) }
}

function panicSig (p) {
  let loc = String(p.location || '').replace(/:\d+:\d+$/, '')
  loc = loc.replace(/^\/root\/\.cargo\/registry\/src\/[^/]+\//, '').replace(/^\/repo\//, '')
  const msg = String(p.message).split(' of `')[0].replace(/\d+/g, 'N').replace(/\s+/g, ' ').slice(0, 90)
  return `panic:${loc}:${msg}`
}

function classify (resp) {
  if (!resp) return 'harness'
  if (resp.ok) return 'ok'
  if (resp.err !== undefined) return 'err'
  if (resp.panic) return 'panic'
  if (resp.abort) return 'abort'
  if (resp.timeout) return 'timeout'
  return 'harness'
}

function runBatch (reqs, hopts) {
  // one rewriter per distinct config
  const h = new Harness(Object.assign({ maxTimeouts: 3 }, hopts)) // a shard whose requests keep hanging is abandoned after the fourth watchdog firing (the rest: inconclusive)
  const lines = []
  const cfgIds = new Map()
  const idx = []
  for (const r of reqs) {
    const key = JSON.stringify(r.config)
    if (!cfgIds.has(key)) { cfgIds.set(key, 'c' + cfgIds.size); lines.push({ op: 'new', rw: cfgIds.get(key), config: r.config }) }
    idx.push(lines.length)
    lines.push({ op: 'rewrite', rw: cfgIds.get(key), code: r.code, file: r.file, reader: r.reader })
  }
  // sub-batches keep the response stream of one process well below node's string limit
  const rs = []
  const news = lines.filter(l => l.op === 'new')
  const rewrites = lines.filter(l => l.op !== 'new')
  const map = new Map()
  for (let i = 0; i < rewrites.length; i += 300) {
    const part = rewrites.slice(i, i + 300)
    const out = h.run(news.concat(part))
    part.forEach((q, j) => map.set(q, out[news.length + j]))
  }
  lines.forEach((l, i) => { rs[i] = l.op === 'new' ? { ok: {} } : map.get(l) })
  return { responses: idx.map(i => rs[i]), h }
}

function judge (req, resp, profile, rep, bump) {
  const c = classify(resp)
  bump(`${profile}:${c}`)
  const witness = { code: req.code, file: req.file, reader: req.reader, config: req.config, meta: req.meta, profile }
  if (c === 'panic') {
    const inRepo = /\/repo\/src\//.test(String(resp.panic.location))
    if (profile === 'debug' && !inRepo) { bump('debug_third_party_assert'); rep.sets.debug_only_third_party_panics.push(panicSig(resp.panic)); return }
    rep.violations.push({ sig: panicSig(resp.panic), what: `rewrite panicked (${profile} build): ${resp.panic.message} at ${resp.panic.location}; input kind ${req.meta.kind}, file ${JSON.stringify(clip(req.file, 60))}${req.meta.ref ? ', map reference ' + JSON.stringify(req.meta.ref) : ''}`, witness })
  } else if (c === 'abort') {
    const st = resp.abort.stderr || ''
    const san = /AddressSanitizer|LeakSanitizer/.test(st)
    const first = (st.match(/ERROR: (AddressSanitizer|LeakSanitizer): [^\n]*/) || [])[0] || ''
    rep.violations.push({ sig: san ? `sanitizer:${clip(first.replace(/0x[0-9a-f]+/g, 'ADDR').replace(/\d+/g, 'N'), 90)}` : `abort:${resp.abort.signal || 'status' + resp.abort.status}`, what: `harness process died during a rewrite (${profile}): signal=${resp.abort.signal} status=${resp.abort.status} ${clip(st, 600)}`, witness })
  } else if (c === 'timeout') {
    // two confirmed hang witnesses per shard are enough: further watchdog firings of the shard are not escalated again
    rep.hangsConfirmed = rep.hangsConfirmed || 0
    if (rep.hangsConfirmed >= 2) { bump('timeouts_not_escalated_after_two_witnesses'); rep.inconclusive.push({ reason: 'batch-watchdog-not-escalated', detail: req.meta.kind }); return }
    // escalate: re-run alone with a generous budget; only a repeated non-return is a hang witness
    const h = new Harness({ profile: profile === 'memcheck' ? 'release' : profile, batchTimeoutMs: HANG_BUDGET_MS })
    const again = h.run([{ op: 'new', rw: 'r', config: req.config }, { op: 'rewrite', rw: 'r', code: req.code, file: req.file, reader: req.reader }])[1]
    if (classify(again) === 'timeout') { rep.hangsConfirmed++; rep.violations.push({ sig: `hang:${req.meta.kind}`, what: `rewrite did not return within ${HANG_BUDGET_MS} ms when re-run alone (input ${req.code.length} chars)`, witness }) }
    else { bump('timeouts_not_reproduced'); rep.inconclusive.push({ reason: 'batch-watchdog', detail: req.meta.kind }); judge(req, again, profile, rep, () => {}) }
  } else if (c === 'err') {
    if (typeof resp.err !== 'string' || !resp.err.trim()) rep.violations.push({ sig: 'error-without-diagnostic', what: 'rewrite returned an error value with an empty diagnostic', witness })
    else rep.sets.error_kinds.push(clip(resp.err.replace(/[\s\S]*?x /, '').split('\n')[0].replace(/\d+/g, 'N'), 60))
  } else if (c === 'harness') rep.inconclusive.push({ reason: 'harness-error', detail: clip(JSON.stringify(resp), 200) })
}

module.exports = {
  id: 'C13',
  level: 'fault_enumeration',
  rule: 'requests = hostile text (token-level mutations of corpus/catalogue/random programs, random printable/UTF-8 text, dictionary soup, nesting up to depth 64, 100 KB files) x hostile file names (empty, "/", no directory, trailing slash, non-ASCII, 5000 chars) x 9 ordinary configurations plus randomly drawn hostile ones (hook / method / prefix names that are empty, not identifiers, reserved words, 5000 characters, non-ASCII, duplicates; odd verbosity spellings) x source-map references (data URLs valid/invalid/empty/index map, absolute, relative, junk) whose reader outcome is drawn from the fault plan: content valid / index map / truncated / empty / invalid JSON / invalid VLQ / non-UTF-8 / NotFound / PermissionDenied / IsADirectory / Other / Interrupted / failure after k bytes / generated 2 MB map, with parent() = node-dirname | std | none. Each request runs behind catch_unwind in rwharness; monitors: panic (message+location), process death (signal, sanitizer report), watchdog escalated to a 60 s isolated re-run (bounded-progress restatement of never-hangs), error without diagnostic. Profiles: release (verdict), valgrind memcheck (sample), and in thorough debug + AddressSanitizer builds. distinct_nontrivial = distinct requests answered. Proposal / dialect syntax (export-default-from, decorators and auto-accessors, import attributes and phases, `using`, do-expressions, pipeline, records, throw expressions, TypeScript and JSX fragments, html-like comments, hashbang, contextual keywords) next to instrumented code: whatever the parser accepts, the printer must cope with.',
  assumptions: [
    'never loops is decided only in bounded form: a request (<=256 KB) must return within 60 s when re-run alone',
    'nesting depth is capped at 64 by the generators (exhaustion by nesting depth is out of scope per the statement)',
    'debug-build panics raised by debug_assert! inside third-party crates are reported as diagnostics, not violations (not behaviour of the shipped profile)',
    'a clean sanitizer run means no report on the requests that reached these entry points, not memory safety'
  ],
  profiles (ctx) { return ctx.tier === 'thorough' ? ['release', 'debug', 'asan'] : ['release'] },
  plan (ctx) {
    const shards = []
    const nRel = ctx.tier === 'thorough' ? 200000 : 6400
    const per = ctx.tier === 'thorough' ? 2500 : 400
    for (let k = 0; k < nRel / per; k++) shards.push({ profile: 'release', count: per, stream: k })
    // every catalogue form as a valid program (3 placements each, all of them in thorough): totality on well-formed inputs
    shards.push({ profile: 'release', catalog: true, stream: 900 })
    const nMem = ctx.tier === 'thorough' ? 4000 : 320
    for (let k = 0; k < nMem / 80; k++) shards.push({ profile: 'memcheck', count: 80, stream: 1000 + k })
    if (ctx.tier === 'thorough') {
      for (let k = 0; k < 32; k++) shards.push({ profile: 'debug', count: 1500, stream: 2000 + k })
      for (let k = 0; k < 32; k++) shards.push({ profile: 'asan', count: 1500, stream: 3000 + k })
    }
    return shards
  },
  minEvaluations (ctx) { return ctx.tier === 'thorough' ? 50000 : 3000 },
  async runShard (spec, ctx) {
    const rng = new Rng(ctx.seed, 'c13', spec.stream)
    const files = corpus.list()
    const reqs = []
    if (spec.catalog) {
      const pls = ctx.tier === 'thorough' ? cat.PLACEMENTS : rng.sample(cat.PLACEMENTS, 3).concat(cat.PLACEMENTS.filter(p => p.id === 'return'))
      for (const fm of cat.FORMS) for (const pl of pls) if (cat.compatible(pl, fm)) reqs.push({ code: cat.build(pl, fm, { strict: rng.bool() }).code, file: '/srv/app/catalog.js', meta: { kind: 'catalog:' + pl.id + ':' + fm.id }, config: configs(rng) })
    } else for (let i = 0; i < spec.count; i++) reqs.push(genRequest(rng.fork(i), files, spec.profile !== 'release'))
    const rep = { evaluations: 0, distinct: [], violations: [], inconclusive: [], samples: [], counters: {}, sets: { error_kinds: [], debug_only_third_party_panics: [], reader_outcomes: [], file_name_shapes: [] } }
    const bump = (k, n = 1) => { rep.counters[k] = (rep.counters[k] || 0) + n }
    let hopts = { profile: spec.profile }
    if (spec.profile === 'memcheck') hopts = { profile: 'release', wrapper: ['valgrind', '--tool=memcheck', '--error-exitcode=97', '--quiet', '--track-origins=no', '--num-callers=12'], batchTimeoutMs: 600000, perReqMs: 8000 }
    if (spec.profile === 'asan') hopts = { profile: 'asan', env: { ASAN_OPTIONS: 'halt_on_error=1:abort_on_error=1:detect_leaks=1:symbolize=1', ASAN_SYMBOLIZER_PATH: '/usr/bin/llvm-symbolizer-14' }, batchTimeoutMs: 300000, perReqMs: 2000 }
    if (spec.profile === 'debug') hopts = { profile: 'debug', batchTimeoutMs: 300000, perReqMs: 3000 }
    if (ctx.tier === 'quick' && spec.profile === 'release' && spec.stream % 4 === 0) hopts.env = { RWH_LOG: '1' } // also drive the debug! formatting paths
    const { responses, h } = runBatch(reqs, hopts)
    for (let i = 0; i < reqs.length; i++) {
      judge(reqs[i], responses[i], spec.profile, rep, bump)
      const c = classify(responses[i])
      if (c === 'ok' || c === 'err') { rep.evaluations++; rep.distinct.push(hashStr(reqs[i].code + '|' + reqs[i].file + '|' + JSON.stringify(reqs[i].reader || 0))) }
      if (reqs[i].meta.ref) rep.sets.reader_outcomes.push(reqs[i].meta.ref.entry + '/' + reqs[i].meta.ref.parent)
      if (rep.samples.length < 2 && reqs[i].meta.ref && reqs[i].code.length < 600) rep.samples.push({ code: reqs[i].code, file: reqs[i].file, reader: clip(JSON.stringify(reqs[i].reader), 300), outcome: c, profile: spec.profile })
    }
    if (spec.profile === 'memcheck') {
      const st = h.stderrAll || ''
      const reports = (st.match(/==\d+== (Invalid (read|write)|Conditional jump|Use of uninitialised|Invalid free|Mismatched free|Source and destination overlap)[^\n]*/g) || [])
      bump('memcheck_requests', reqs.length)
      if (reports.length || h.lastStatus === 97) rep.violations.push({ sig: `memcheck:${clip((reports[0] || 'error-exitcode').replace(/==\d+== /, '').replace(/\d+/g, 'N'), 70)}`, what: `valgrind memcheck reported ${reports.length} error(s): ${clip(st, 1500)}`, witness: { stream: spec.stream, count: spec.count, profile: 'memcheck' } })
    }
    return rep
  },
  async replay (w, ctx) {
    const rep = { violations: [], inconclusive: [], sets: { error_kinds: [], debug_only_third_party_panics: [] } }
    if (w.code === undefined) return rep
    const profile = ['debug', 'asan'].includes(w.profile) ? w.profile : 'release'
    const { responses } = runBatch([w], { profile })
    judge(w, responses[0], profile, rep, () => {})
    return rep
  }
}
