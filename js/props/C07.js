'use strict'
// C07 — directive prologues (strict mode) survive in every function and in the file.
const A = require('../lib/astmon')
const { makeAligner } = require('../lib/stmtalign')
const { rewriteJobs, kind } = require('../lib/pipeline')
const { differential } = require('../lib/diffexec')
const { compile } = require('../lib/world')
const { SETS } = require('../lib/cfgset')
const { Rng, hashStr, clip, chunk } = require('../lib/util')

// (directives that engines or tools know by name are the ones a rewriter is tempted to treat specially: 'use asm', "use client", 'use server', 'ngInject')
const DIRECTIVES = ["'use strict'", '"use strict"', "'use asm'", '"use client"', "'use server'", "'ngInject'", "'other directive'", '"twelve chars!"', "'use strict'", "'don\\'t touch'", '"esc\\x41ped \\u0064irective"', "'line \\\ncontinuation'", "'use\\x20strict'", "''"]
// statements that stand where a directive could stand but are NOT directives (they end the directive prologue and
// must not turn into one: a template, a parenthesised string, a string followed by an operator)
const PSEUDO = [";'use strict'", ';;"use strict"', '`use strict`', "('use strict')", "'use strict', 0", "'use strict'.length", 'String.raw`use strict`', "+'use strict'", "'use strict'\n+ ''", '`use strict` + 1', "void 0; 'use strict'", "var early = 1; 'use strict'; 'later string statement'"]
const lastReturn = (b, w) => { const i = b.lastIndexOf('return '); return b.slice(0, i) + w + b.slice(i + 7) }
const FUNCS = [
  (d, b) => `function fn() { ${d} ${b} }\nw.out(fn.call(undefined));`,
  (d, b) => `const fn = function () { ${d} ${b} };\nw.out(fn.call(undefined));`,
  (d, b) => `const fn = () => { ${d} ${b} };\nw.out(fn());`,
  (d, b) => `const ob = { m() { ${d} ${b} } };\nw.out(ob.m.call(undefined));`,
  (d, b) => `const ob = { get g() { ${d} ${b} } };\nw.out(ob.g);`,
  (d, b) => `class K { constructor() { ${d} ${lastReturn(b, 'this.r = ')} } }\nw.out(new K().r);`,
  (d, b) => `class K { static sm() { ${d} ${b} } }\nw.out(K.sm.call(undefined));`,
  (d, b) => `function* g() { ${d} ${lastReturn(b, 'yield ')} }\nfor (const v of g.call(undefined)) w.out(v);`,
  (d, b) => `function outer() { function inner() { ${d} ${b} } return inner.call(undefined) }\nw.out(outer());`,
  (d, b) => `function outer() { ${d} function inner() { ${b} } return inner.call(undefined) }\nw.out(outer());`,
  (d, b) => `w.out((function () { ${d} ${b} }).call(undefined));`,
  (d, b) => `w.out(w.cb1(function () { ${d} ${b} }));`
]
const PROBE = "let mode; try { undeclared_probe_name = 1; mode = 'sloppy-assign' } catch (e) { mode = 'strict-assign:' + e.constructor.name } const plainThis = (function () { return this === undefined })(); const alias = (function (p) { arguments[0] = 'changed'; return p })('kept');"
const BODY_INSTR = `${PROBE} return mode + '|' + plainThis + '|' + alias + '|' + (typeof this) + '|' + (w.s7 + w.f8());`
const BODY_PLAIN = `${PROBE} return mode + '|' + plainThis + '|' + alias + '|' + (typeof this);`

function directiveLists (ast) {
  // per Program / function body: the directive prologue as acorn sees it
  const out = []
  A.walk(ast, (n) => {
    let body = null
    if (n.type === 'Program') body = n.body
    else if ((n.type === 'FunctionDeclaration' || n.type === 'FunctionExpression' || n.type === 'ArrowFunctionExpression') && n.body.type === 'BlockStatement') body = n.body.body
    if (body) { const d = []; for (const s of body) { if (s.directive !== undefined) d.push(s.directive); else break } out.push({ start: n.start, type: n.type, directives: d }) }
  })
  return out
}

function genCases (rng, count) {
  const cases = []
  for (let i = 0; i < count; i++) {
    const r = rng.fork(i)
    const nd = r.weighted([[2, 0], [4, 1], [4, 2], [2, 3]])
    const dirs = []
    for (let k = 0; k < nd; k++) dirs.push(r.pick(DIRECTIVES))
    const fileDirs = []
    const nfd = r.weighted([[5, 0], [3, 1], [3, 2]])
    for (let k = 0; k < nfd; k++) fileDirs.push(r.pick(DIRECTIVES))
    const instr = r.bool(0.7)
    const f = r.int(FUNCS.length)
    const sep = r.pick([';', ';', '\n'])
    let d = dirs.map(x => x + sep).join(' ')
    const pseudo = r.bool(0.25) ? r.pick(PSEUDO) : null
    if (pseudo) d += ' ' + pseudo + ';'
    const head = r.pick(['', '', '// leading comment\n', '/* block */ ', '#!/usr/bin/env node\n'])
    const fileInstr = r.bool(0.5)
    const filePseudo = r.bool(0.15) ? r.pick(PSEUDO) : null
    const fd = fileDirs.map(x => x + ';').join('\n') + (filePseudo ? '\n' + filePseudo + ';' : '')
    let code = `${head}${fd}\n{ var topLevelBlock = ${fileInstr ? 'w.s1 + w.f2()' : '1'}; w.out(topLevelBlock) }\n${FUNCS[f](d, instr ? BODY_INSTR : BODY_PLAIN)}\n`
    const module = head !== '#!/usr/bin/env node\n' && r.bool(0.15)
    if (module) code += 'export {}\n'
    cases.push({ code, meta: { fn: f, dirs, fileDirs, instr, fileInstr, module, pseudo, filePseudo, head: head.trim().slice(0, 12) } })
  }
  return cases
}

async function check (job, resp, prefix, opts) {
  const violations = []
  const k = kind(resp)
  const out = { k }
  if (k !== 'ok-modified') return { out, violations }
  const sig = (kindS) => `${kindS}:fn=${job.meta.fn}:dirs=${job.meta.dirs.length}:fileDirs=${job.meta.fileDirs.length}`
  const push = (kindS, what, extra) => violations.push({ sig: sig(kindS), what, witness: Object.assign({ code: job.code, config: job.config, cfgName: job.cfgName, meta: job.meta, output: clip(resp.ok.raw.code, 5000) }, extra || {}) })
  let a, b
  try { a = A.parse(job.code, { module: job.meta.module }); b = A.parse(resp.ok.raw.code, { module: job.meta.module }) } catch (e) { out.skipped = 'unparsable: ' + e.message; return { out, violations } }
  // (second pass: the input carries the prologue of the first pass; its IIFE is skipped on both sides)
  const proIn = job.meta.secondPass ? a.body.filter(A.isPrologueIf).map(st => [st.start, st.end]) : []
  const da = directiveLists(a).filter(x => !proIn.some(([st, e]) => x.start >= st && x.start < e))
  // the output has one extra function (the prologue IIFE + noop arrow): drop functions inside the prologue statement
  const pro = b.body.filter(A.isPrologueIf).map(s => [s.start, s.end])
  const db = directiveLists(b).filter(x => !pro.some(([s, e]) => x.start >= s && x.start < e))
  out.bodies = da.length
  if (da.length !== db.length) push('function-count', `input has ${da.length} directive-bearing bodies, output ${db.length}`)
  else {
    for (let i = 0; i < da.length; i++) {
      if (JSON.stringify(da[i].directives) !== JSON.stringify(db[i].directives)) {
        push(da[i].type === 'Program' ? 'file-directives' : 'function-directives', `${da[i].type} #${i}: directive prologue ${JSON.stringify(da[i].directives)} became ${JSON.stringify(db[i].directives)}`)
        break
      }
    }
  }
  if (opts.exec && !compile(job.code, job.meta.module)) {
    const d = await differential(job.code, resp.ok.content, { module: job.meta.module, hooks: ['identity', 'none'], faults: 0 })
    out.exec = d
    if (d.divergences.length) push('strictness-probe', `strictness probes differ between input and output: ${clip(JSON.stringify(d.divergences[0].diff), 300)}`)
  }
  return { out, violations }
}

module.exports = {
  id: 'C07',
  level: 'exploration',
  rule: 'programs = 12 function kinds (declaration, expression, arrow, method, getter, constructor, static method, generator, nested inner/outer, IIFE, callback) x directive prologues of length 0-3 drawn from {\'use strict\', "use strict", \'other directive\', a 13-char string} in any order x file-level prologues of length 0-2 x body with/without instrumented code x hashbang / leading comments / module. Monitors: (structural) the directive prologue of the program and of every function body as acorn parses it must be identical in input and output; (dynamic) strictness probes (assignment to an undeclared name, this of a plain call, arguments aliasing, typeof this) are executed in input and output and compared event by event. distinct_nontrivial = distinct programs with >= 1 directive and a modified output. Second pass: every third modified output is rewritten again under another prefix; its directive prologues must be the ones of its input once more.',
  assumptions: ['legacy-octal acceptance is not probed (it would make the strict variant of the input invalid)', "'use asm' is not generated"],
  plan (ctx) {
    const n = ctx.tier === 'thorough' ? 40000 : 6000
    const shards = []
    for (let k = 0; k < n / 150; k++) shards.push({ count: 150, stream: k })
    return shards
  },
  minEvaluations () { return 300 },
  async runShard (spec, ctx) {
    const rng = new Rng(ctx.seed, 'c07', spec.stream)
    const names = ['FULL', 'RENAMED', 'COMMENTS', 'SUBSET']
    const js = genCases(rng, spec.count).map((c, i) => { const cn = names[i % names.length]; return { code: c.code, meta: c.meta, config: SETS[cn], cfgKey: cn, cfgName: cn } })
    const { responses, prefixes } = rewriteJobs(js)
    const rep = { evaluations: 0, distinct: [], violations: [], inconclusive: [], samples: [], counters: {}, sets: { function_kinds: [], directive_counts: [] } }
    const bump = (k, n = 1) => { rep.counters[k] = (rep.counters[k] || 0) + n }
    for (let i = 0; i < js.length; i++) {
      const { out, violations } = await check(js[i], responses[i], prefixes[i], { exec: true })
      bump('status:' + out.k)
      if (['abort', 'timeout', 'harness'].includes(out.k)) { rep.inconclusive.push({ reason: 'harness-' + out.k, detail: 'c07' }); continue }
      if (out.k !== 'ok-modified') { if (out.k === 'err' && (rep.sets.rewriter_errors || []).length < 3) rep.sets.rewriter_errors = (rep.sets.rewriter_errors || []).concat([clip(responses[i].err.replace(/\s+/g, ' '), 300)]); continue }
      if (out.skipped) { bump('skipped'); continue }
      rep.evaluations++
      bump('bodies_compared', out.bodies || 0)
      if (out.exec) { bump('programs_executed'); bump('probe_runs', out.exec.runs) }
      rep.sets.function_kinds.push('fn' + js[i].meta.fn); rep.sets.directive_counts.push(js[i].meta.dirs.length + '/' + js[i].meta.fileDirs.length)
      if (js[i].meta.dirs.length + js[i].meta.fileDirs.length > 0) rep.distinct.push(hashStr(js[i].code))
      if (rep.samples.length < 2 && js[i].meta.dirs.length > 1) rep.samples.push({ input: clip(js[i].code, 900), config: js[i].cfgName, completion: out.exec && out.exec.baseCompletion })
      for (const v of violations) rep.violations.push(v)
    }
    // second pass: every third modified output is rewritten again (another prefix, as when an already instrumented file
    // reaches the rewriter once more); its directive prologues - file and functions - must again be the ones of its input
    const again = []
    for (let i = 0; i < js.length; i += 3) { const r = responses[i]; if (r && r.ok && r.ok.metrics && r.ok.metrics.status === 'modified') again.push({ code: r.ok.content, meta: Object.assign({}, js[i].meta, { secondPass: true }), config: Object.assign({}, js[i].config, { localVarPrefix: 'second' }), cfgKey: 'second:' + js[i].cfgKey, cfgName: js[i].cfgName + '+second-pass' }) }
    if (again.length) {
      const r2 = rewriteJobs(again)
      for (let i = 0; i < again.length; i++) {
        const { out, violations } = await check(again[i], r2.responses[i], r2.prefixes[i], { exec: false })
        bump('second_pass:' + out.k)
        if (out.k !== 'ok-modified' || out.skipped) continue
        rep.evaluations++
        bump('second_pass_bodies_compared', out.bodies || 0)
        for (const v of violations) rep.violations.push(Object.assign({}, v, { sig: 'second-pass:' + v.sig }))
      }
    }
    return rep
  },
  async replay (w) {
    const job = { code: w.code, meta: w.meta, config: w.config, cfgName: w.cfgName }
    const { responses, prefixes } = rewriteJobs([Object.assign({ cfgKey: 'replay' }, job)])
    return { violations: (await check(job, responses[0], prefixes[0], { exec: true })).violations }
  }
}
