'use strict'
// C14 — literal collection reports exactly the input's string literals, truly located (independent acorn-based extractor).
const L = require('../lib/literals')
const A = require('../lib/astmon')
const corpus = require('../lib/corpus')
const { rewriteJobs, kind } = require('../lib/pipeline')
const { cfg, FULL, STRING_METHODS } = require('../lib/configs')
const { Rng, hashStr, clip, chunk } = require('../lib/util')

const CFG_ALL = Object.assign({}, FULL, { literals: true })
const CFG_NONE = cfg({ plus: false, tpl: false, methods: [], literals: true })
const CFG_DEFAULT_LIT = cfg({ methods: STRING_METHODS }) // literals omitted => on
const CFG_OFF = cfg({ methods: STRING_METHODS, literals: false })
const CFG_COMMENTS_CHAIN = cfg({ methods: STRING_METHODS, comments: true, chain: true, literals: true })

const UNITS = [['a', 1], ['é', 2], ['€', 3], ['😀', 4]]
function makeValue (rng, bytes) {
  // a value of exactly `bytes` UTF-8 bytes
  let s = ''
  let left = bytes
  const uniq = 'v' + rng.int(100000) + '_'
  if (left > uniq.length + 2) { s += uniq; left -= uniq.length }
  while (left > 0) { const [ch, n] = rng.pick(UNITS.filter(u => u[1] <= left)); s += ch; left -= n }
  return s
}
function spell (rng, value) {
  // spell a value as a JS string literal: quotes and escapes vary (cooked != raw length)
  const q = rng.pick(["'", '"'])
  let out = ''
  for (const ch of value) {
    const r = rng.int(12)
    const cp = ch.codePointAt(0)
    if (ch === q || ch === '\\') out += '\\' + ch
    else if (r === 0 && cp < 0x100) out += '\\x' + cp.toString(16).padStart(2, '0')
    else if (r === 1 && cp < 0x10000) out += '\\u' + cp.toString(16).padStart(4, '0')
    else if (r === 2) out += '\\u{' + cp.toString(16) + '}'
    else out += ch
  }
  return q + out + q
}

function genProgram (rng, opts = {}) {
  const lines = []
  const planted = []
  const lens = [9, 10, 11, 12, 20, 60, 255, 256, 257, 258, 300]
  const shared = makeValue(rng, 24)
  const lit = () => {
    const v = rng.bool(0.12) ? shared : makeValue(rng, rng.bool(0.6) ? rng.pick(lens) : rng.range(1, 40))
    planted.push(v)
    return spell(rng, v)
  }
  const pad = () => rng.bool(0.35) ? rng.pick(['/* ñ */ ', '/* 😀 */ ', '\t', '    ', '/*é€*/', '/* 漢字ＡＢ */ ', '/* a\u200bb\u0301 */ ', '\t\t  \t']) : ''
  const nl = opts.crlf ? '\r\n' : '\n'
  if (opts.module) lines.push(`import def from ${lit()}`)
  if (rng.bool(0.3)) lines.push(`${rng.pick(["'use strict'", '"use strict"', "'a directive long enough'"])}`)
  lines.push(`${pad()}var top1 = ${lit()}, top2 = ${lit()} + top1`)
  lines.push(`const topObj = { ${pad()}key1: ${lit()}, 'str key': ${lit()}, [${lit()}]: ${lit()}, 42: ${lit()}, nested: { inner: ${lit()} }, m() { return ${lit()} } }`)
  lines.push(`const mod = require(${lit()}), mod2 = require(${lit()}, ${lit()}), mod3 = require(...[${lit()}]), mod4 = require(dyn(${lit()})), mod5 = require(${lit()}).load(${lit()})`)
  lines.push(`const re1 = new RegExp(${lit()}), re2 = new RegExp(${lit()}, ${lit()}), re3 = new RegExp(v, ${lit()}), re4 = new RegExp(make(${lit()})), re5 = new RegExp, re6 = new RegExp(...[${lit()}]), re7 = RegExp(${lit()})`)
  lines.push(`function host(a, b = ${lit()}) {`)
  lines.push(`  ${pad()}const x = a + ${lit()} + b, y = \`tpl ${makeValue(rng, 14)} \${a}\`, z = ${lit()}`)
  lines.push(`  let acc = ${pad()}${lit()}; acc += ${lit()}; acc = acc.concat(${lit()}, a).replace(${lit()}, ${lit()})`)
  lines.push(`  if (a === ${lit()}) { return ${lit()} } else if (b) throw new Error(${lit()})`)
  lines.push(`  switch (a) { case ${lit()}: b = [${lit()}, ${lit()}]; break }`)
  lines.push(`  const o = { k: (${lit()}), 'q': a ? ${lit()} : ${lit()}, get g() { return ${lit()} } }; o[${lit()}] = ${lit()}`)
  lines.push(`  class K { f = ${lit()}; static s = ${lit()}; ${lit().replace(/^(['"]).*$/, "'classKey'")}() { return ${lit()} } }`)
  lines.push(`  const inner = (p) => p + ${lit()} + String.prototype.concat.call(${lit()}, p) + a?.trim(${lit()})`)
  lines.push(`  tag\`tagged ${makeValue(rng, 14)}\`; void ${lit()}; typeof ${lit()}; delete o[${lit()}]`)
  lines.push(`  let c1, c2 = ${lit()}, c3; c1 = c3 = ${lit()}; const { d1 = ${lit()}, d2: [d3 = ${lit()}] = [], ...dr } = o; ({ d1: c1 = ${lit()} } = o); [c1 = ${lit()}] = b`)
  lines.push(`  const rq = [require.resolve(${lit()}), o.require(${lit()}), require(${lit()})(${lit()}), require2(${lit()}), new o.RegExp(${lit()}), new RegExp(${lit()}).test(${lit()}), require\`x\`(${lit()})]`)
  lines.push(`  const oc = [a?.concat(${lit()}), o.get(${lit()})?.trim(), o?.[${lit()}].slice(1), a.concat(...b.split(${lit()})), a?.b?.(${lit()}), String.prototype.concat.apply(a, [${lit()}, ...${lit()}])]`)
  lines.push(`  const ml = \`multi${nl}line \${a}${nl}template\`; /* multi${nl} line${nl} comment */ const after = ${lit()}; for (const fk of [${lit()}]) acc += fk + ${lit()}`)
  lines.push(`  label: for (let i = ${lit()}; i < 1; i++) { try { acc += \`\${${lit()}}\${a}\` } catch ({ message = ${lit()} }) { continue label } finally { acc = (${lit()}, acc) } }`)
  lines.push(`  o[${lit()}] += a; (o[${lit()}]) += b; o[a][${lit()}] += ${lit()}; o[${lit()}][${lit()}] += a + b`)
  lines.push(`  acc = ${lit()}.replace(${lit()}, a) + ${lit()}.concat(a, ${lit()}) + ${lit()}.padEnd(30, b) + ${lit()}.repeat(a.length) + ${lit()}.replaceAll(a, b) + ${lit()}.trim() + ${lit()}?.concat(a)`)
  lines.push(`  import(${lit()}); return inner(${lit()}) + ${lit()}.length`)
  lines.push('}')
  if (opts.module) lines.push(`export { host as default }; export * from ${lit()}`)
  // multi-line layout: some statements split
  let code = lines.join(nl) + nl
  // (some continuation lines carry no indentation: the next token - often a literal - then sits at column 1)
  if (rng.bool(0.5)) code = code.replace(/, /g, () => rng.bool(0.15) ? ',' + nl + rng.pick(['    ', '    ', '', '\t']) : ', ')
  // how the file ENDS: with a line break (usual), with nothing after the last token, or with a literal whose closing quote is
  // the very last byte of the file; and how it BEGINS: a literal at offset 0
  const ending = rng.int(6)
  if (ending === 0) code = code.replace(/[\r\n]+$/, '')
  else if (ending === 1 && !opts.module) code = code + 'module.exports = ' + lit()
  else if (ending === 2 && !opts.module) code = code + `var lastOne = ${lit()}, veryLast = ${lit()}`
  if (rng.bool(0.15) && !opts.module && !/^\s*['"]use/.test(code)) code = `${lit()}.length; ` + code
  if (opts.bom) code = '﻿' + code
  return { code, planted }
}

function check (job, resps) {
  // resps: {all, none, off, def}
  const violations = []
  const out = {}
  const sigBase = job.meta.kind === 'corpus' ? 'corpus' : 'gen'
  const push = (kindS, what, extra) => violations.push({ sig: `${sigBase}:${kindS}`, what, witness: Object.assign({ code: job.code, meta: job.meta, file: job.file }, extra || {}) })
  const kinds = Object.fromEntries(Object.entries(resps).map(([k, v]) => [k, kind(v)]))
  out.kinds = kinds
  if (!['ok-modified', 'ok-notmodified'].includes(kinds.all)) return { out, violations }
  let expected
  try { expected = L.extract(job.code, { module: !!job.meta.module }) } catch (e) {
    try { expected = L.extract(job.code, { module: !job.meta.module }) } catch (e2) { out.skipped = 'acorn-rejects-input'; return { out, violations } }
  }
  out.expected = expected.entries.length
  const sets = {}
  for (const name of ['all', 'none', 'def', 'cc']) {
    const r = resps[name]
    if (!r || !r.ok) continue
    const lr = r.ok.literalsResult
    if (!lr) { push('no-report', `literal collection enabled (${name}) but no literalsResult`); continue }
    if (lr.file !== job.file) push('file', `literalsResult.file ${lr.file} != ${job.file}`)
    const rep = L.flatten(lr)
    const problems = L.compare(expected, rep, job.code)
    for (const p of problems.slice(0, 6)) push(`${p.kind}${name === 'none' ? '' : ''}`, `[${name}: status ${r.ok.metrics.status}] ${p.kind}: ${p.detail}`, { cfg: name, problem: p })
    sets[name] = JSON.stringify(rep.entries.map(e => `${e.value}\u0000${e.line}:${e.column}:${e.ident}`).sort())
    out.reported = rep.entries.length
  }
  const names = Object.keys(sets)
  for (let i = 1; i < names.length; i++) if (sets[names[i]] !== sets[names[0]]) push('differs-between-configurations', `literal report under ${names[i]} differs from the one under ${names[0]} (instrumentation must not add/remove/move entries)`)
  if (resps.off && resps.off.ok && resps.off.ok.literalsResult) push('report-when-disabled', 'literals:false but a literalsResult was produced')
  return { out, violations }
}

module.exports = {
  id: 'C14',
  level: 'exploration',
  rule: 'every input is rewritten under configurations that instrument everything / nothing / default literals / comments+chain / literals off; the flattened literalsResult must equal, as a multiset of (value, line, column, ident), the extraction computed from the acorn AST of the input by a model written from the statement (string literals in expression position, UTF-8 length in (10,256], not inside require(<literal>,..) / new RegExp(<literal>,..), 1-based line, 1-based column of the opening quote in UTF-16 code units (what JavaScript string indexing uses; a leading BOM is not counted on line 1), ident for identifier-named initialisers and identifier-keyed object properties). Generated files plant literals of 9..12 and 255..258 bytes with 1-4 byte characters and escapes in every position (operands of instrumented operations, arguments, initialisers, object values, excluded calls, nested functions, top level, class fields, default params), CRLF/BOM/multi-line/non-ASCII layouts; plus the corpus. distinct_nontrivial = distinct inputs with >= 1 expected literal.',
  assumptions: ['ident is not judged for string/numeric/computed-keyed properties, class fields and parenthesised initialisers (statement silent)', 'lone CR / U+2028 / U+2029 line terminators are not generated', 'import attributes are ignored'],
  plan (ctx) {
    const shards = []
    const n = ctx.tier === 'thorough' ? 30000 : 3000
    for (let k = 0; k < n / 100; k++) shards.push({ kind: 'gen', count: 100, stream: k })
    const files = corpus.list()
    const pick = ctx.tier === 'thorough' ? files : new Rng(ctx.seed, 'c14c').sample(files, 320)
    for (const c of chunk(pick, 40)) shards.push({ kind: 'corpus', items: c.map(f => ({ name: f.name, kind: f.kind })) })
    // corpus files with operations (and literals) spliced onto random expression nodes
    const ns = ctx.tier === 'thorough' ? 3000 : 240
    for (let k = 0; k < ns / 60; k++) shards.push({ kind: 'splice', count: 60, stream: k })
    return shards
  },
  minEvaluations () { return 300 },
  async runShard (spec, ctx) {
    let js
    if (spec.kind === 'gen') {
      const rng = new Rng(ctx.seed, 'c14', spec.stream)
      js = []
      for (let i = 0; i < spec.count; i++) {
        const r = rng.fork(i)
        const opts = { module: r.bool(0.2), crlf: r.bool(0.2), bom: r.bool(0.1) }
        const p = genProgram(r, opts)
        js.push({ code: p.code, file: '/srv/app/lits/f' + (i % 9) + '.js', meta: { kind: 'gen', module: opts.module, crlf: opts.crlf, bom: opts.bom, planted: p.planted.length } })
      }
    } else if (spec.kind === 'splice') {
      js = require('../lib/gen_splice').splice(new Rng(ctx.seed, 'c14splice', spec.stream), corpus.list(), spec.count).map(p => ({ code: p.code, file: '/srv/app/lib/' + p.meta.name, meta: { kind: 'corpus', name: p.meta.name, module: p.meta.module, splices: p.meta.splices } }))
    } else js = spec.items.map(it => ({ code: corpus.read(it.name), file: '/srv/app/lib/' + it.name, meta: { kind: 'corpus', name: it.name, module: it.kind === 'module' } }))
    const variants = [['all', CFG_ALL], ['none', CFG_NONE], ['off', CFG_OFF], ['def', CFG_DEFAULT_LIT], ['cc', CFG_COMMENTS_CHAIN]]
    const jobs = []
    for (const j of js) for (const [name, c] of variants) jobs.push({ code: j.code, file: j.file, config: c, cfgKey: name })
    const { responses } = rewriteJobs(jobs)
    const rep = { evaluations: 0, distinct: [], violations: [], inconclusive: [], samples: [], counters: {}, sets: {} }
    const bump = (k, n = 1) => { rep.counters[k] = (rep.counters[k] || 0) + n }
    js.forEach((j, i) => {
      const resps = {}
      variants.forEach(([name], v) => { resps[name] = responses[i * variants.length + v] })
      const { out, violations } = check(j, resps)
      bump('status(all):' + out.kinds.all)
      if (out.skipped) { bump(out.skipped); return }
      if (out.expected === undefined) { if (['abort', 'timeout', 'harness'].includes(out.kinds.all)) rep.inconclusive.push({ reason: 'harness-' + out.kinds.all, detail: j.meta.kind }); return }
      rep.evaluations++
      bump('expected_literal_occurrences', out.expected)
      bump('reported_literal_occurrences', out.reported || 0)
      if (out.expected > 0) rep.distinct.push(hashStr(j.code))
      if (rep.samples.length < 1 && j.meta.kind === 'gen') rep.samples.push({ input: clip(j.code, 1200), expected_occurrences: out.expected, statuses: out.kinds })
      for (const v of violations) rep.violations.push(v)
    })
    return rep
  },
  async replay (w) {
    const variants = [['all', CFG_ALL], ['none', CFG_NONE], ['off', CFG_OFF], ['def', CFG_DEFAULT_LIT], ['cc', CFG_COMMENTS_CHAIN]]
    const { responses } = rewriteJobs(variants.map(([name, c]) => ({ code: w.code, file: w.file, config: c, cfgKey: name })))
    const resps = {}
    variants.forEach(([name], v) => { resps[name] = responses[v] })
    return { violations: check({ code: w.code, file: w.file, meta: w.meta }, resps).violations }
  }
}
