'use strict'
// C15 — reported propagation metrics equal the instrumentation actually emitted (conservation: reported = emitted).
const A = require('../lib/astmon')
const { plan: structPlan, jobs: structJobs } = require('../lib/structwork')
const { rewriteJobs } = require('../lib/pipeline')
const { analyze } = require('../lib/structan')
const { cfg, STRING_METHODS } = require('../lib/configs')
const { Rng, hashStr, clip, chunk } = require('../lib/util')
const PH = require('../lib/pkghistory')

// (unknown words - including the empty string, prefixes of a level name and names with surrounding blanks - mean the documented default)
const VERBOSITIES = [undefined, 'OFF', 'MANDATORY', 'INFORMATION', 'DEBUG', 'debug', 'Off', 'junk', '', 'o', 'Of', 'd', 'DEB', 'INFO', 'M', 'OFFF', ' OFF', 'DEBUG ', 'mandatory', 'o\uFB00']
function effective (v) {
  if (v === undefined) return 'INFORMATION'
  const u = String(v).toUpperCase()
  return ['OFF', 'MANDATORY', 'INFORMATION', 'DEBUG'].includes(u) ? u : 'INFORMATION'
}
const ALONE = { src: 'aloneMethod', allowedWithoutCallee: true }
function cfgFor (v, renamed) {
  const methods = renamed ? STRING_METHODS.map(m => ({ src: m, dst: /^trim/.test(m) ? 'stringTrim' : 'x_' + m })).concat([ALONE]) : STRING_METHODS.concat([ALONE])
  return cfg({ methods, verbosity: v, plusDst: renamed ? 'plus' : undefined, tplDst: renamed ? 'tpl' : undefined })
}

// statements mixing instrumented and non-instrumented operations; every permutation is a program
const POOL = [
  ['instr-plus', 'const x1 = a + b();'],
  ['lit-sum', "const y1 = 'a' + 'b';"],
  ['unlisted', 'a.charAt(1);'],
  ['excluded-delete', 'delete o[a + b];'],
  ['opt-configured', 'a?.trim();'],
  ['opt-unconfigured', 'a?.charAt(0);'],
  ['nested', 'const z1 = (a + b).trim() + c;'],
  ['add-assign', 's += a;'],
  ['template', 'const t1 = `${a}-${b()}`;'],
  ['num-sum', 'let w1 = 1 + 2; w1 += 3;'],
  ['opt-prototype', 'a?.prototype.trim();'],
  ['tpl-literal-subst', 'const u1 = `${1}${a + b}`;'],
  ['method-args', "s.concat(a, 'x', b());"],
  ['proto-call', 'String.prototype.trim.call(a);'],
  ['bare', 'aloneMethod(a);'],
  ['arrow-expr', 'const f1 = (p) => p + a;'],
  // substitutions that are sums the rewriter leaves in place (literal-only): a hook without operands
  ['tpl-literal-sum-subst', 'const v1 = `${1 + 2}px`;'],
  ['tpl-two-literal-sum-substs', "const v2 = `${'a' + 'b'}-${1 + 2}`;"]
]

function permProgram (idxs) { return 'function host(a, b, c, o, s) {\n' + idxs.map(i => '  ' + POOL[i][1]).join('\n') + '\n  return s;\n}\n' }

function planPerms (ctx) {
  const rng = new Rng(ctx.seed, 'c15perms')
  const n = POOL.length
  const all = []
  const maxLen = ctx.tier === 'thorough' ? 3 : 2
  const rec = (pref) => { if (pref.length) all.push(pref.slice()); if (pref.length === maxLen) return; for (let i = 0; i < n; i++) if (!pref.includes(i)) { pref.push(i); rec(pref); pref.pop() } }
  rec([])
  // longer permutations sampled
  const extra = ctx.tier === 'thorough' ? 20000 : 3000
  for (let k = 0; k < extra; k++) all.push(rng.shuffle(Array.from({ length: n }, (_, i) => i)).slice(0, rng.range(3, 7)))
  return all
}

function check (job, resp, prefix) {
  const violations = []
  const witness = (extra) => Object.assign({ code: job.code, config: job.config, cfgName: job.cfgName, meta: job.meta }, extra || {})
  const sigBase = job.meta.permKinds ? 'perm' : (job.meta.placement ? `catalog:${job.meta.placement}:${job.meta.form}` : (job.meta.kind === 'corpus' ? 'corpus' : 'random'))
  const r = analyze(job, resp, prefix)
  if (r.status !== 'ok-modified' && r.status !== 'ok-notmodified') return { r, violations }
  const m = resp.ok.metrics
  const eff = effective(job.config.telemetryVerbosity)
  const push = (kind, what) => violations.push({ sig: `${sigBase}:${kind}`, what, witness: witness({ metrics: m, hookSites: r.hookSites }) })
  if (!m) { push('no-metrics', 'no metrics object in the result'); return { r, violations } }
  if (m.file !== (job.file || '/app/src/prog.js')) push('file', `metrics.file ${m.file} != file passed ${job.file}`)
  const expectedStatus = r.status === 'ok-modified' ? 'modified' : 'notmodified'
  if (m.status !== expectedStatus) push('status', `metrics.status ${m.status}`)
  if (eff === 'OFF') {
    if (m.instrumentedPropagation !== 0) push('off-count', `verbosity OFF but instrumentedPropagation=${m.instrumentedPropagation}`)
    if (m.propagationDebug !== null && m.propagationDebug !== undefined) push('off-breakdown', 'verbosity OFF but a breakdown was produced')
    return { r, violations }
  }
  const emitted = r.status === 'ok-modified' ? r.hookSites.length : 0
  if (m.instrumentedPropagation !== emitted) push('count', `instrumentedPropagation=${m.instrumentedPropagation} but ${emitted} hook call site(s) were emitted` + (job.meta.permKinds ? ` [${job.meta.permKinds.join(' ; ')}]` : ''))
  if (eff === 'DEBUG') {
    if (m.propagationDebug === null || m.propagationDebug === undefined) push('debug-missing', 'verbosity DEBUG but no propagationDebug')
    else if (r.status === 'ok-modified' && r.aligned) {
      const exp = r.byTag
      const got = m.propagationDebug
      const keys = new Set([...Object.keys(exp), ...Object.keys(got)])
      const bad = []
      for (const k of keys) if ((exp[k] || 0) !== (got[k] || 0)) bad.push(`${k}: reported ${got[k] || 0} emitted ${exp[k] || 0}`)
      if (bad.length) push('breakdown', `propagationDebug is not the partition of emitted hooks by operation: ${bad.join(', ')}`)
    } else if (r.status === 'ok-notmodified' && Object.keys(m.propagationDebug).length) push('breakdown-notmodified', 'not modified but non-empty breakdown')
  } else if (m.propagationDebug !== null && m.propagationDebug !== undefined) push('breakdown-unexpected', `verbosity ${eff} but a breakdown was produced`)
  return { r, violations }
}

// metrics of every call of a history through the real main.js (CacheRewriter / NonCacheRewriter on shared instances):
// file name and status echo THIS call, the count equals the hook call sites of the content handed out
function runPackageShard (spec, ctx) {
  const rep = { evaluations: 0, distinct: [], violations: [], inconclusive: [], samples: [], counters: {}, sets: { verbosities: [] } }
  const bump = (k, n = 1) => { rep.counters[k] = (rep.counters[k] || 0) + n }
  for (let h = 0; h < spec.histories; h++) {
    const rng = new Rng(ctx.seed, 'c15pkg', spec.stream, h)
    let hist
    try { hist = PH.runHistory(rng, `c15_${spec.stream}_${h}`) } catch (e) { rep.inconclusive.push({ reason: 'package-history-failed', detail: String(e && e.message).slice(0, 200) }); continue }
    bump('package_histories')
    const shape = hist.calls.map(c => `${c.kind}@${c.file.split('/').slice(-3).join('/')}`)
    for (const c of hist.calls) {
      const r = c.response
      if (!r || r.error !== undefined) { bump('package_calls_failed'); continue }
      rep.evaluations++
      bump('package_calls')
      const m = r.metrics
      const seen = new Set()
      const push = (kind, what) => { const sig = `package:${kind}`; if (seen.has(sig)) return; seen.add(sig); rep.violations.push({ sig, what: `${what} (call #${c.step} of history [${shape.join(', ')}], ${c.rewriter}, config ${c.cfgName})`, witness: { packageHistory: hist.calls.map(x => ({ kind: x.kind, file: x.file, code: x.code, cfgName: x.cfgName, rewriter: x.rewriter })), step: c.step } }) }
      if (!m) { push('no-metrics', 'no metrics object in the result'); continue }
      if (m.file !== c.file) push('file', `metrics.file ${m.file} != file passed ${c.file}`)
      if (r.literalsResult && r.literalsResult.file !== undefined && r.literalsResult.file !== c.file) bump('literals_file_differs_from_call') // reported under C16
      const eff = effective(c.config.telemetryVerbosity)
      rep.sets.verbosities.push(String(c.config.telemetryVerbosity))
      if (m.status === 'notmodified') {
        if (r.content !== c.code) push('status', 'status notmodified but the content is not the caller\'s text')
        if (m.instrumentedPropagation !== 0) push('count', `not modified but instrumentedPropagation=${m.instrumentedPropagation}`)
        continue
      }
      if (m.status !== 'modified') { push('status', `metrics.status ${m.status}`); continue }
      let sites
      const parsed = A.parseAuto(r.content)
      if (!parsed.ast) { rep.inconclusive.push({ reason: 'content-unparsable', detail: String(parsed.error).slice(0, 100) }); continue }
      sites = A.census(parsed.ast).sites
      rep.distinct.push(hashStr(c.code + c.file + c.cfgName + c.step))
      bump('hook_sites_counted', sites.length)
      if (!sites.length) push('status', 'status modified but the content has no hook call site')
      if (eff === 'OFF') {
        if (m.instrumentedPropagation !== 0) push('off-count', `verbosity OFF but instrumentedPropagation=${m.instrumentedPropagation}`)
        if (m.propagationDebug !== null && m.propagationDebug !== undefined) push('off-breakdown', 'verbosity OFF but a breakdown was produced')
        continue
      }
      if (m.instrumentedPropagation !== sites.length) push('count', `instrumentedPropagation=${m.instrumentedPropagation} but the content handed out has ${sites.length} hook call site(s)`)
      if (eff === 'DEBUG') {
        if (m.propagationDebug === null || m.propagationDebug === undefined) push('debug-missing', 'verbosity DEBUG but no propagationDebug')
        else { const sum = Object.values(m.propagationDebug).reduce((a, b) => a + b, 0); if (sum !== sites.length) push('breakdown', `propagationDebug sums to ${sum}, ${sites.length} hook call site(s) emitted`) }
      } else if (m.propagationDebug !== null && m.propagationDebug !== undefined) push('breakdown-unexpected', `verbosity ${eff} but a breakdown was produced`)
    }
    if (rep.samples.length < 1) rep.samples.push({ package_history: shape })
  }
  return rep
}

module.exports = {
  id: 'C15',
  level: 'exploration',
  rule: 'conservation check per result: metrics.instrumentedPropagation must equal the number of `_ddiast.<dst>(` call sites in the emitted code (census on the acorn AST of the raw output); under DEBUG the per-tag map must equal the partition of those sites by the aligned input operation (+, +=, Tpl, method source name); OFF => 0 and no breakdown; other levels => no breakdown; status/file echo the call. Workload: every permutation (length<=2 quick, <=3 thorough, longer sampled) of 16 statements mixing instrumented, literal-only, disabled, excluded, optional-chain and nested operations, x 8 verbosity spellings (a sixth of them declaring a source map that cannot be loaded, with chaining on or off), plus corpus/catalogue/random programs. distinct_nontrivial = distinct (input, config) whose output has >= 1 hook site. Package layer: call histories (8-28 calls) through the real main.js on shared CacheRewriter / NonCacheRewriter instances, over paths that share base names and carry byte-identical code, checking that file name and status echo THIS call and that the count equals the hook call sites of the content handed out. Workload additions: corpus files with enabled operations spliced onto randomly chosen expression nodes (25 wrappers x every expression slot; only texts V8 still compiles), the syntax zoo with LF/CRLF/CR line endings, a CRLF slice of the corpus.',
  assumptions: ['hook call sites are counted syntactically in the emitted code; the prologue contains none', 'tag attribution needs the erased output to align with the input (C02); unaligned files only get the count check'],
  plan (ctx) {
    const perms = planPerms(ctx)
    const shards = chunk(perms, 400).map((c, i) => ({ kind: 'perms', perms: c, stream: i }))
    for (const s of structPlan(ctx, { quickCorpus: 250, exec: { quickRandom: 1500, quickFormsPerPlacement: 6 } })) shards.push(s)
    // the metrics as the package API (main.js) hands them out, over call histories on shared instances
    for (let k = 0, n = ctx.tier === 'thorough' ? 96 : 12; k < n; k++) shards.push({ kind: 'package', stream: 5000 + k, histories: 3 })
    return shards
  },
  minEvaluations () { return 300 },
  async runShard (spec, ctx) {
    if (spec.kind === 'package') return runPackageShard(spec, ctx)
    let js
    if (spec.kind === 'perms') {
      js = spec.perms.map((idxs, i) => {
        const v = VERBOSITIES[(i + spec.stream + ctx.seed) % VERBOSITIES.length]
        const renamed = (i + ctx.seed) % 3 === 0
        // a share of the programs declares a source map that cannot be loaded (missing file, undecodable data URL), with chaining on
        // or off: whatever the rewriter decides to do with such a file, what it reports must be what it emitted
        const ref = i % 6 === 5 ? ['\n//# sourceMappingURL=missing-' + i + '.js.map\n', '\n//# sourceMappingURL=data:application/json;base64,@@@@\n', '\n//# sourceMappingURL=/nonexistent/dir/x.map'][i % 3] : ''
        const chain = ref !== '' && i % 4 !== 1
        const c = cfgFor(v, renamed)
        if (chain) c.chainSourceMap = true
        return { code: permProgram(idxs) + ref, file: `/srv/app/perm_${i % 7}.js`, meta: { permKinds: idxs.map(x => POOL[x][0]), sigBase: 'perm', unloadableMap: ref !== '' }, config: c, cfgKey: 'v' + String(v) + renamed + (chain ? 'C' : ''), cfgName: `verbosity=${v}${renamed ? ',renamed' : ''}${chain ? ',chain' : ''}${ref ? ',unloadable-map-reference' : ''}` }
      })
    } else {
      js = structJobs(spec, ctx).map((j, i) => {
        // the breakdown is only produced (and checked) under DEBUG: every other job runs with it, the rest rotate through the spellings
        const v = i % 2 === 0 ? 'DEBUG' : VERBOSITIES[(i + ctx.seed) % VERBOSITIES.length]
        const c = Object.assign({}, j.config, v === undefined ? {} : { telemetryVerbosity: v })
        if (v === undefined) delete c.telemetryVerbosity
        return Object.assign({}, j, { config: c, cfgKey: j.cfgKey + '|v' + String(v), cfgName: j.cfgName + ',verbosity=' + v })
      })
    }
    const { responses, prefixes } = rewriteJobs(js)
    const rep = { evaluations: 0, distinct: [], violations: [], inconclusive: [], samples: [], counters: {}, sets: { verbosities: [] } }
    const bump = (k, n = 1) => { rep.counters[k] = (rep.counters[k] || 0) + n }
    for (let i = 0; i < js.length; i++) {
      const { r, violations } = check(js[i], responses[i], prefixes[i])
      bump('status:' + r.status)
      if (['abort', 'timeout', 'harness'].includes(r.status)) { rep.inconclusive.push({ reason: 'harness-' + r.status, detail: js[i].meta.sigBase }); continue }
      if (r.status !== 'ok-modified' && r.status !== 'ok-notmodified') continue
      rep.evaluations++
      rep.sets.verbosities.push(String(js[i].config.telemetryVerbosity))
      if (r.hookSites) bump('hook_sites_counted', r.hookSites.length)
      if (r.hookSites && r.hookSites.length) rep.distinct.push(hashStr(js[i].code + js[i].cfgName))
      if (rep.samples.length < 2 && r.hookSites && r.hookSites.length && js[i].code.length < 700) rep.samples.push({ input: js[i].code, config: js[i].cfgName, metrics: responses[i].ok.metrics, emitted_hook_sites: r.hookSites })
      for (const v of violations) rep.violations.push(v)
    }
    return rep
  },
  async replay (w) {
    const job = { code: w.code, meta: w.meta, config: w.config, cfgName: w.cfgName, file: w.file }
    const { responses, prefixes } = rewriteJobs([Object.assign({ cfgKey: 'replay' }, job)])
    return { violations: check(job, responses[0], prefixes[0]).violations }
  },
  check
}
