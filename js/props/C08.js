'use strict'
// C08 — every output is valid JavaScript of the same kind as the input (V8 compile-only, acorn, the rewriter's own parser).
const A = require('../lib/astmon')
const S = require('../lib/smap')
const G = require('../lib/gen_hostile')
const { plan: structPlan, jobs: structJobs } = require('../lib/structwork')
const { rewriteJobs, kind } = require('../lib/pipeline')
const { compile } = require('../lib/world')
const { withEol, EOLS } = require('../lib/execwork')
const { SETS } = require('../lib/cfgset')
const { Rng, hashStr, clip } = require('../lib/util')

// ASI / syntax-sensitive shapes: an injected `(` or `let` must not merge with the previous line or change parsing
const ASI = [
  'function f(a, b) {\n  const x = a\n  a + b()\n  return x\n}',
  'function f(a, b) {\n  let y = b\n  `${a}${b()}`.length\n  return y\n}',
  'function f(a, b) {\n  a.trim()\n  ;[a, b].join(a)\n  return b\n}',
  'function f(a, b) {\n  return (\n    a + b\n  )\n}',
  'function f(a, b) {\n  if (a) return a + b\n  else return b.trim()\n}',
  'function f(a, b) {\n  for (const k in a) b += k\n  do b += a; while (!b)\n  return b\n}',
  'function f(a, b) {\n  label: for (;;) { b += a; break label }\n  return b\n}',
  'function* g(a) {\n  const x = yield a + 1\n  yield* [a + x]\n  return `${yield}`\n}',
  'async function h(a) {\n  for await (const x of a) { await x.trim() }\n  return await a + 1\n}',
  'class K extends (a + b) {\n  static #p = a + b\n  static { K.#p += a }\n  get [a + b]() { return a + b }\n  constructor() { super(); this.x = a + super.toString() }\n}',
  'function f(a, b) {\n  return new (a.concat(b))(a + b)\n}',
  'function f(a, b) {\n  return a.trim``.concat`x${a + b}`\n}',
  'function f(a) {\n  return a?.trim()?.[a + 1]?.(a.trim())\n}',
  "function f(a, b) {\n  'use strict'\n  return a + b\n}",
  'function f(a, b) {\n  const o = { async *[a + b]() { yield a + b }, get x() { return a + b }, [`${a}`]: a.trim() }\n  return o\n}',
  'function f(a, b) {\n  var let_ = a + b, of = a.trim(), async = b + a\n  return async\n}',
  'function f(a, b) {\n  return a ** -(a + b), (a + b) ** 2, -a.trim() ** 2 === 0 || 1\n}'.replace('-a.trim() ** 2', '(-a.trim()) ** 2'),
  'function f(a, b) {\n  return (a, b) + (b, a)\n}',
  'function f(a, b) {\n  return a in b + a, a instanceof Object + b\n}'.replace('Object + b', '(Object) + b'),
  'function f(a, b) {\n  for (var i = (a + b in {}) ? 0 : 1; i < 2; i++) b += i\n  return b\n}',
  'function f(a, b) {\n  switch (a + b) { case a + b: { b += a } default: b += a }\n  return b\n}',
  'function f(a, b) {\n  return typeof a + b, void a + b, !a + b, -a + b, +a + b, ~a + b, delete a.x + b\n}',
  'function f(a, b) {\n  return (() => ({}) + a)() + (function () { return b }) + class {}\n}',
  'function f(a, b) {\n  return /=/.test(a) ? a + b /2/ 1 : a / b + /x/g.source\n}'.replace('a + b /2/ 1', 'a + b / 2 / 1'),
  'function f(a, b) {\n  a = b + a // comment at end\n  /* c */ b += a /* d */ + b\n  return a\n}',
  'function f(a, b) {\n  return a +\n    // line comment inside\n    b.trim( /* inner */ )\n}',
  'import x from "y"\nexport function f(a, b) { return a + b + import.meta.url }\nexport default class { m(a) { return a.trim() } }',
  'export const f = async (a) => { const m = await import(a + ".js"); return m.default + a }',
  '#!/usr/bin/env node\nfunction f(a, b) { return a + b }',
  'function f(a, b) {\n  return a\n  + b\n}',
  'function f(a, b) {\n  a\n  ++\n  b\n  return a + b\n}',
  'function f(a, b) { return a ?? b + a, (a ?? b) + a, (a || b) + (a && b) }',
  'function f(a, b) { return a?.b\n.trim() + a?.[b]\n?.trim() }',
  'function f(a, b) { with (a) { return b + trim() } }',
  'function f(a, b) { return a < b > a + b, a <!--b\n, a --> b }'.replace(', a <!--b\n, a --> b', ''),
  'var f = function (a) { return a + 1 }, g = (a) => a + 2, h = async a => a + 3',
  'function load(urls, v, get) { return Promise.all(urls.map(async (u) => await get(u) + "?v=" + v)) }',
  'function f(a) { return { async m() { return await a + 1 }, async *g() { yield await a + 1 }, h: async function () { return `${await a}` } } }',
  'function f(a) { const g = async () => (await a).trim(); return async x => { for await (const y of x) a += y; return a } }',
  'function* f(a) { const g = function* () { yield a + 1 }; return (yield* g()) + (yield a) }',
  'function f(a, b) { return class extends (a + b) { static async *[a + b]() { yield* [await a + b] } } }',
  // D49 witness (kept last so that the indices above stay put): a legacy non-octal decimal literal (sloppy mode only) as member object
  'function f(a) {\n  const r = 089 .toString() + a\n  return r\n}',
  // D50 witness (sloppy mode only): `let` used as an identifier, a parenthesised member of it as += target at the start of a statement
  'function f(a, k) {\n  (let[k]) += a\n  return k\n}'
]

function usesAwaitAsIdentifier (code) {
  let found = false
  try { A.walk(A.parse(code, { module: false }), n => { if (n.type === 'Identifier' && n.name === 'await') found = true }) } catch (e) {}
  return found
}

async function check (job, resp, reparse) {
  const violations = []
  const k = kind(resp)
  const out = { k }
  const sigBase = job.meta.placement ? `catalog:${job.meta.placement}:${job.meta.form}` : (job.meta.kind === 'corpus' ? 'corpus:' + job.meta.name : job.meta.asi !== undefined ? 'asi:' + job.meta.asi : job.meta.kind === 'mutated' ? 'mutated' : job.meta.kind === 'collision' ? 'collision:' + job.meta.collision : 'random')
  if (k !== 'ok-modified') return { out, violations }
  // kind of the input according to V8
  let inputKind = null
  if (!compile(job.code, false)) inputKind = 'script'
  else if (!compile(job.code, true)) inputKind = 'module'
  if (!inputKind) { out.skipped = 'input-rejected-by-v8'; return { out, violations } }
  out.inputKind = inputKind
  const push = (kindS, what) => violations.push({ sig: `${sigBase}:${kindS}`, what, witness: { code: job.code, config: job.config, cfgName: job.cfgName, meta: job.meta, content: clip(resp.ok.content, 8000) } })
  const content = resp.ok.content
  const t = S.splitTrailer(content)
  if (t.error) push('trailer', 'source-map trailer not in place: ' + t.error)
  const e1 = compile(content, inputKind === 'module')
  if (e1) push('v8-rejects-output', `V8 accepts the input as ${inputKind} but rejects the output: ${e1}`)
  try { A.parse(content, { module: inputKind === 'module' }) } catch (e) { push('acorn-rejects-output', `acorn rejects the output as ${inputKind}: ${e.message}`) }
  if (inputKind === 'script' && /^\s*(import|export)\b/m.test(t.code || '') && compile(content, false)) push('kind-changed', 'script input produced module-only output')
  if (reparse) {
    const rk = kind(reparse)
    out.reparse = rk
    if (rk === 'err' && !/Variable name duplicated/.test(reparse.err)) {
      // D33 (known finding, swc's parser): in a script `await` may be an identifier; swc accepts `await\n+ x` but rejects the same
      // expression printed on one line. The signature names that situation so that any other rejection stays a violation.
      const awaitIdent = /await isn't allowed in non-async function/.test(reparse.err) && inputKind === 'script' && usesAwaitAsIdentifier(job.code)
      push('own-parser-rejects-output' + (awaitIdent ? ':await-as-identifier' : ''), "the rewriter's own parser rejects the output: " + clip(reparse.err, 300))
    }
    if (rk === 'panic' || rk === 'abort') push('own-parser-crashes-on-output', JSON.stringify(reparse).slice(0, 300))
  }
  return { out, violations }
}

module.exports = {
  id: 'C08',
  level: 'exploration',
  rule: 'for every accepted, modified input that V8 itself compiles (as script, else as module), the content must compile in V8 as the same kind (compile only, never run), parse with acorn under the same source type, be accepted by the rewriter\'s own parser when fed back (a refused name collision is the expected answer for its own temporaries), and end with the trailer line. Workload: corpus, catalogue, random programs, 41 ASI/syntax-hazard programs x {LF, CRLF, CR line endings} x all configurations (comments on/off), the syntax zoo under the three line-ending styles (string line continuations, raw line breaks in templates/comments), a CRLF slice of the corpus, and token-mutated programs that V8 still accepts. distinct_nontrivial = distinct (input, config) outputs checked by all three parsers.',
  assumptions: ['V8 of node 20 and acorn 8.16 decide validity; inputs V8 rejects are skipped and counted', 'feeding an output back uses a different prefix so that the collision refusal does not hide a syntax error'],
  plan (ctx) {
    const shards = [{ kind: 'asi' }, { kind: 'collision' }]
    for (const s of structPlan(ctx, { quickCorpus: 320, exec: { quickRandom: 2000, quickFormsPerPlacement: 8, thoroughRandom: 30000 } })) shards.push(s)
    const nMut = ctx.tier === 'thorough' ? 40000 : 4000
    for (let k = 0; k < nMut / 200; k++) shards.push({ kind: 'mutated', count: 200, stream: k })
    return shards
  },
  minEvaluations () { return 300 },
  async runShard (spec, ctx) {
    let js
    if (spec.kind === 'asi') {
      js = []
      ASI.forEach((code, i) => { for (const eol of EOLS) for (const [cn, c] of Object.entries(SETS)) js.push({ code: withEol(code, eol), meta: { asi: i + (eol === 'lf' ? '' : ':' + eol), sigBase: 'asi:' + i, module: /^(import|export)\b/m.test(code) }, config: c, cfgKey: cn, cfgName: cn }) })
    } else if (spec.kind === 'collision') {
      // programs that mention reserved (or nearly reserved) injected names: refusing is fine, but whatever IS emitted must be valid
      const C06 = require('./C06')
      js = []
      for (const [name, tpl] of C06.COLLISION) for (const n of C06.RES.concat(C06.NEAR)) js.push({ code: C06.wrapCollision(tpl(n), false), meta: { kind: 'collision', collision: name, sigBase: 'collision:' + name, module: false }, config: SETS.FULL, cfgKey: 'FULL', cfgName: 'FULL' })
    } else if (spec.kind === 'mutated') {
      const rng = new Rng(ctx.seed, 'c08mut', spec.stream)
      const base = structJobs({ kind: 'random', count: 40, stream: 500 + spec.stream, cfgNames: Object.keys(SETS) }, ctx)
      js = []
      let guard = 0
      while (js.length < spec.count && guard++ < spec.count * 30) {
        const b = rng.pick(base)
        const code = G.mutate(b.code, rng, rng.range(1, 3))
        if (compile(code, !!b.meta.module)) continue // keep only mutants V8 still accepts
        js.push(Object.assign({}, b, { code, meta: Object.assign({}, b.meta, { kind: 'mutated' }) }))
      }
    } else js = structJobs(spec, ctx)
    const { responses } = rewriteJobs(js)
    // feed every modified output back into the rewriter (own parser), with another prefix
    const backIdx = []
    const back = []
    js.forEach((j, i) => { if (kind(responses[i]) === 'ok-modified') { backIdx.push(i); back.push({ code: responses[i].ok.content, config: Object.assign({}, j.config, { localVarPrefix: 'reparse' }), cfgKey: 'back:' + j.cfgKey, file: '/app/src/prog.js' }) } })
    const backRes = back.length ? rewriteJobs(back).responses : []
    const reparse = new Map(backIdx.map((i, n) => [i, backRes[n]]))
    const rep = { evaluations: 0, distinct: [], violations: [], inconclusive: [], samples: [], counters: {}, sets: {} }
    const bump = (k, n = 1) => { rep.counters[k] = (rep.counters[k] || 0) + n }
    for (let i = 0; i < js.length; i++) {
      const { out, violations } = await check(js[i], responses[i], reparse.get(i))
      bump('status:' + out.k)
      if (['abort', 'timeout', 'harness'].includes(out.k)) { rep.inconclusive.push({ reason: 'harness-' + out.k, detail: js[i].meta.sigBase }); continue }
      if (out.skipped) { bump(out.skipped); continue }
      if (out.k !== 'ok-modified') continue
      rep.evaluations++
      bump('outputs_as_' + out.inputKind)
      if (out.reparse) bump('reparse:' + out.reparse)
      rep.distinct.push(hashStr(js[i].code + js[i].cfgName))
      if (rep.samples.length < 2 && js[i].code.length < 400) rep.samples.push({ input: js[i].code, config: js[i].cfgName, kind: out.inputKind, reparse: out.reparse })
      for (const v of violations) rep.violations.push(v)
    }
    return rep
  },
  async replay (w) {
    const job = { code: w.code, meta: w.meta, config: w.config, cfgName: w.cfgName }
    const { responses } = rewriteJobs([Object.assign({ cfgKey: 'replay' }, job)])
    let rp
    if (kind(responses[0]) === 'ok-modified') rp = rewriteJobs([{ code: responses[0].ok.content, config: Object.assign({}, w.config, { localVarPrefix: 'reparse' }), cfgKey: 'b' }]).responses[0]
    return { violations: (await check(job, responses[0], rp)).violations }
  }
}
