'use strict'
// C16 — rewriting is deterministic and independent of earlier calls (offline checker over recorded call histories).
const corpus = require('../lib/corpus')
const cat = require('../lib/gen_catalog')
const { genProgram } = require('../lib/gen_random')
const G = require('../lib/gen_hostile')
const { Harness } = require('../lib/rw')
const { cfg, FULL, STRING_METHODS } = require('../lib/configs')
const { SETS } = require('../lib/cfgset')
const { Rng, hashStr, clip } = require('../lib/util')

const CFGS = [
  ['FULL', FULL], ['RENAMED', SETS.RENAMED], ['CHAIN_COMMENTS', cfg({ chain: true, comments: true, methods: STRING_METHODS, verbosity: 'DEBUG' })],
  ['NO_PREFIX', cfg({ prefix: null, methods: STRING_METHODS, verbosity: 'DEBUG' })], ['SUBSET_OFF', SETS.SUBSET], ['NO_PREFIX_CHAIN', cfg({ prefix: null, chain: true, comments: true, methods: ['trim', 'concat'] })],
  ['EMPTY_PREFIX', cfg({ prefix: '', methods: STRING_METHODS, verbosity: 'DEBUG' })], ['ODD_PREFIX', cfg({ prefix: '$_9', methods: STRING_METHODS, chain: true })]
]

const b64 = s => Buffer.from(s).toString('base64')
const MAPS = [G.VALID_MAP, JSON.stringify({ version: 3, sources: ['a.ts', 'b.ts'], names: ['x', 'y'], mappings: 'AAAAA,CAACC;ACAD;AAAA' })]

function genRequest (rng, files, plainOnly) {
  let kind = rng.weighted([[3, 'corpus'], [3, 'catalog'], [3, 'random'], [2, 'mutated'], [2, 'multi-map-comments'], [2.5, 'same-relative-map-url'], [1.5, 'many-literals'], [1, 'notmodified'], [0.6, 'extreme-shape'], [1, 'collision']])
  if (plainOnly && kind === 'extreme-shape') kind = 'catalog' // (the memcheck history: 25x slower, sizes kept small)
  let code; let reader
  let file = '/srv/app/lib/m' + rng.int(6) + '.js'
  if (rng.bool(0.3)) file = `/srv/app/${rng.pick(['a', 'b', 'c/d'])}/m${rng.int(3)}.js`
  if (kind === 'corpus') { const f = rng.pick(files); code = corpus.read(f.name); if (code.length > 30000) code = code.slice(0, 30000) } else if (kind === 'catalog') { const pairs = cat.allPairs(); const [p, f] = pairs[rng.int(pairs.length)]; code = cat.build(p, f, { strict: rng.bool() }).code } else if (kind === 'random') code = genProgram(rng.fork('g'), { maxStmts: 20 }).code
  else if (kind === 'mutated') code = G.mutate(genProgram(rng.fork('g'), { maxStmts: 12 }).code, rng)
  else if (kind === 'multi-map-comments') {
    // several sourceMappingURL comments: which one is used must not depend on hash-map iteration order
    code = 'function f(a, b) { return a + b.trim() }\n'
    const n = rng.range(2, 5)
    const files2 = {}
    for (let i = 0; i < n; i++) {
      const style = rng.int(3)
      const m = rng.pick(MAPS)
      if (style === 0) code += `//# sourceMappingURL=data:application/json;base64,${b64(m)}\n`
      else if (style === 1) { code += `//# sourceMappingURL=m${i}.map\n`; files2['/srv/app/lib/m' + i + '.map'] = { content: m } } else { code += `function g${i}(x) { return x + ${i} } //# sourceMappingURL=m${i}.map\n`; files2['/srv/app/lib/m' + i + '.map'] = rng.bool() ? { content: m } : { err: 'NotFound' } }
    }
    reader = { files: files2, parent: 'node' }
  } else if (kind === 'same-relative-map-url') {
    // the usual layout: every folder has its own index.js + index.js.map; the URL text is identical, the maps are not
    const folder = rng.pick(['billing', 'users', 'users/admin', 'orders', 'x/y/z'])
    file = `/srv/app/${folder}/index.js`
    code = `function h_${folder.replace(/\W/g, '_')}(a, b) { return a + b.trim() }\n//# sourceMappingURL=index.js.map\n`
    const map = JSON.stringify({ version: 3, sources: [folder.replace(/\W/g, '_') + '.ts'], names: [], mappings: 'AAAA,SAAS,EAAE' })
    const files2 = {}
    files2[`/srv/app/${folder}/index.js.map`] = rng.bool(0.8) ? { content: map } : rng.pick([{ err: 'NotFound' }, { err: 'PermissionDenied' }, { err: 'IsADirectory' }, { err: 'Other' }, { err: 'Interrupted' }, { content: map, fail_after: 5 }])
    reader = { files: files2, parent: 'node' }
  } else if (kind === 'many-literals') {
    code = 'function lits(a) {\n' + Array.from({ length: rng.range(20, 60) }, (_, i) => `  const l${i} = ${rng.bool(0.3) ? "'shared literal value'" : `'literal number ${i} long enough'`}; a += l${i};`).join('\n') + '\n  return a\n}\n'
  } else if (kind === 'extreme-shape') {
    // files at the edge of what the rewriter copes with: very deep nesting with very many siblings at the bottom, very many
    // temporaries in one block, a very long flat sum - resources used up by one call must be back for the next one
    const d = rng.pick([400, 999, 1001, 1100])
    const shape = rng.int(4)
    if (shape === 0) code = 'function deep(a, g) { return ' + 'g('.repeat(d) + '[' + Array.from({ length: 1500 }, (_, k) => 'a + ' + k).join(', ') + ']' + ')'.repeat(d) + ' }\n'
    else if (shape === 1) code = 'function deep(a) { return ' + '['.repeat(d) + Array.from({ length: 1100 }, (_, k) => 'a + ' + k).join(', ') + ']'.repeat(d) + ' }\n'
    else if (shape === 2) code = 'function wide(a) { return ' + Array.from({ length: 150 }, (_, k) => `a.m${k}()`).join(' + ') + ' }\n'
    else code = 'function deepUnary(a) { return ' + '!'.repeat(d + 200) + '[' + Array.from({ length: 1100 }, (_, k) => '`${a}' + k + '`').join(', ') + '] }\n'
  } else if (kind === 'notmodified') code = "function f() { return 'a' + 'b' }\n// c\n"
  else code = 'function f(__datadog_test_0, a) { return a + __datadog_test_0 }\n'
  return { code, file, reader, kind, cfgName: null }
}

function canon (resp, prefix) {
  if (!resp) return 'harness-missing'
  const strip = (s) => prefix && prefix !== 'test' ? String(s).split('__datadog_' + prefix + '_').join('__datadog_§_') : String(s)
  if (resp.ok) {
    const o = resp.ok
    const lit = o.literalsResult ? { file: o.literalsResult.file, literals: o.literalsResult.literals.map(l => l.value + '\u0000' + l.locations.map(x => `${x.line}:${x.column}:${x.ident}`).sort().join('|')).sort() } : null
    let content = strip(o.content)
    if (prefix && prefix !== 'test') {
      // the map trailer encodes nothing about the prefix (names are not emitted), content text does
      content = strip(o.raw.code) + '\n#map:' + o.raw.map
    }
    const m = o.metrics ? JSON.stringify(o.metrics, Object.keys(o.metrics).sort()) + JSON.stringify(o.metrics.propagationDebug ? Object.entries(o.metrics.propagationDebug).sort() : null) : null
    return JSON.stringify({ content, m, lit })
  }
  if (resp.err !== undefined) return 'err:' + strip(resp.err)
  if (resp.panic) return 'panic:' + resp.panic.message
  if (resp.abort) return 'abort'
  if (resp.timeout) return 'timeout'
  return 'harness:' + JSON.stringify(resp).slice(0, 100)
}

function firstDiffField (a, b) {
  try {
    const x = JSON.parse(a); const y = JSON.parse(b)
    for (const k of ['content', 'm', 'lit']) if (JSON.stringify(x[k]) !== JSON.stringify(y[k])) return k
  } catch (e) {}
  return 'response'
}

module.exports = {
  id: 'C16',
  level: 'exploration',
  rule: 'random call histories (20-200 calls over 5-30 distinct requests: corpus, catalogue, random, mutated/syntax-error, several sourceMappingURL comments, many literals, not-modified, refused name collision, extreme shapes: nesting around 1000 levels with over a thousand siblings at the bottom, hundreds of temporaries) on 1-4 rewriter instances per configuration, in half of the histories with a logger installed (process-wide, levels OFF..TRACE) at a random point, are recorded at the harness boundary; an offline checker requires every response to equal (content bytes, metrics, literal set, error text) the response to the same request issued alone in a fresh process, on another instance, and in replays of the whole history in other processes (fresh hash seeds / ASLR). With the prefix omitted equality is modulo the prefix and the prefix must be constant per instance. A memcheck run (track-origins) over a history looks for uninitialised-value use. Package layer: call histories (8-28 calls) through the real main.js on shared CacheRewriter / NonCacheRewriter instances over paths that share base names and carry byte-identical code; every response (content, metrics, literal set, error) must equal the response to the same call on a freshly loaded package instance. distinct_nontrivial = distinct (request, position-in-history) observations compared.',
  assumptions: ['literal reports are compared as sets (their order is unspecified)', 'native build: hash seeds and ASLR vary between processes as they do between wasm instantiations only partially; same-process instances share the allocator'],
  plan (ctx) {
    const n = ctx.tier === 'thorough' ? 2000 : 128
    const shards = []
    for (let k = 0; k < n; k++) shards.push({ kind: 'history', stream: k })
    const groups = []
    for (let i = 0; i < shards.length; i += (ctx.tier === 'thorough' ? 20 : 2)) groups.push({ kind: 'histories', streams: shards.slice(i, i + (ctx.tier === 'thorough' ? 20 : 2)).map(s => s.stream) })
    groups.push({ kind: 'memcheck', calls: ctx.tier === 'thorough' ? 1500 : 120 })
    // the same question one layer up: histories through the real main.js on shared CacheRewriter / NonCacheRewriter instances
    for (let k = 0, n = ctx.tier === 'thorough' ? 128 : 14; k < n; k++) groups.push({ kind: 'package', stream: 7000 + k, histories: 3 })
    return groups
  },
  minEvaluations (ctx) { return ctx.tier === 'thorough' ? 50000 : 2000 },
  async runShard (spec, ctx) {
    const rep = { evaluations: 0, distinct: [], violations: [], inconclusive: [], samples: [], counters: {}, sets: { request_kinds: [] } }
    const bump = (k, n = 1) => { rep.counters[k] = (rep.counters[k] || 0) + n }
    if (spec.kind === 'package') {
      const PH = require('../lib/pkghistory')
      for (let h = 0; h < spec.histories; h++) {
        const rng = new Rng(ctx.seed, 'c16pkg', spec.stream, h)
        let hist
        try { hist = PH.runHistory(rng, `c16_${spec.stream}_${h}`) } catch (e) { rep.inconclusive.push({ reason: 'package-history-failed', detail: String(e && e.message).slice(0, 200) }); continue }
        bump('package_histories'); bump('package_calls', hist.calls.length)
        const shape = hist.calls.map(c => `${c.kind}@${c.file.split('/').slice(-3).join('/')}`)
        const seen = new Set()
        for (const c of hist.calls) {
          rep.evaluations++
          rep.distinct.push(hashStr(spec.stream + ':' + h + ':' + c.step))
          rep.sets.request_kinds.push('package:' + c.kind + '/' + c.cfgName)
          const a = PH.fingerprint(c.fresh); const b = PH.fingerprint(c.response)
          if (a !== b) {
            const field = firstDiffField(a, b)
            const sig = `package-history-dependence:${field}:${c.kind}`
            if (seen.has(sig)) continue
            seen.add(sig)
            rep.violations.push({ sig, what: `through main.js (${c.rewriter}, config ${c.cfgName}): call #${c.step} of history [${shape.join(', ')}] for ${c.file} differs from the same call on a freshly loaded package: ${field}: ${clip(a, 260)} VS ${clip(b, 260)}`, witness: { packageHistory: hist.calls.map(x => ({ kind: x.kind, file: x.file, code: x.code, cfgName: x.cfgName, rewriter: x.rewriter })), step: c.step } })
          }
        }
        if (rep.samples.length < 1) rep.samples.push({ package_history: shape })
      }
      return rep
    }
    const files = corpus.list()
    const streams = spec.kind === 'memcheck' ? [9999] : spec.streams
    for (const stream of streams) {
      const rng = new Rng(ctx.seed, 'c16', stream)
      const K = rng.range(5, 30)
      const reqs = []
      for (let i = 0; i < K; i++) { const r = genRequest(rng.fork(i), files, spec.kind === 'memcheck'); const [cn, c] = rng.pick(CFGS); r.cfgName = cn; r.config = c; reqs.push(r) }
      const len = spec.kind === 'memcheck' ? spec.calls : rng.range(20, 200)
      const nInst = rng.range(1, 4)
      // history: sequence of (request index, instance index)
      const hist = []
      for (let i = 0; i < len; i++) hist.push([rng.int(K), rng.int(nInst)])
      const lines = []
      const instKey = (cn, j) => cn + '#' + j
      const made = new Map()
      const callIdx = []
      // some rewriter of the process installs a logger at some point (setLogger is process-wide): results must not depend on it
      const loggerAt = rng.bool(0.5) ? rng.int(Math.max(1, Math.floor(len / 2))) : -1
      const loggerLevel = rng.pick(['DEBUG', 'DEBUG', 'TRACE', 'ERROR', 'OFF'])
      let step = 0
      for (const [ri, ii] of hist) {
        if (step++ === loggerAt) lines.push({ op: 'set_logger', level: loggerLevel })
        const r = reqs[ri]
        const key = instKey(r.cfgName, ii)
        if (!made.has(key)) { made.set(key, lines.length); lines.push({ op: 'new', rw: key, config: r.config }) }
        callIdx.push(lines.length)
        lines.push({ op: 'rewrite', rw: key, code: r.code, file: r.file, reader: r.reader })
      }
      const runHistory = (hopts) => { const h = new Harness(hopts); const rs = h.run(lines); return { rs, h } }
      if (spec.kind === 'memcheck') {
        const { rs, h } = runHistory({ wrapper: ['valgrind', '--tool=memcheck', '--error-exitcode=97', '--quiet', '--track-origins=yes', '--num-callers=12'], batchTimeoutMs: 900000, perReqMs: 8000 })
        const st = h.stderrAll || ''
        const reports = (st.match(/==\d+== (Invalid (read|write)|Conditional jump|Use of uninitialised|Invalid free)[^\n]*/g) || [])
        bump('memcheck_calls', callIdx.filter(i => rs[i] && (rs[i].ok || rs[i].err !== undefined)).length)
        rep.evaluations += callIdx.length
        if (reports.length || h.lastStatus === 97) rep.violations.push({ sig: 'memcheck:' + clip((reports[0] || 'error').replace(/==\d+== /, '').replace(/\d+/g, 'N'), 70), what: 'valgrind memcheck (track-origins) report over a call history: ' + clip(st, 1200), witness: { stream, calls: len } })
        continue
      }
      const first = runHistory({})
      const prefixOf = new Map()
      for (const [key, li] of made) prefixOf.set(key, first.rs[li] && first.rs[li].ok ? first.rs[li].ok.prefix : null)
      const histKeys = hist.map(([ri, ii]) => instKey(reqs[ri].cfgName, ii))
      // (a) each distinct request alone in a fresh process
      const alone = reqs.map((r) => { const h = new Harness(); const rs = h.run([{ op: 'new', rw: 'solo', config: r.config }, { op: 'rewrite', rw: 'solo', code: r.code, file: r.file, reader: r.reader }]); return canon(rs[1], rs[0].ok ? rs[0].ok.prefix : null) })
      const report = (kind, ri, pos, a, b, extra) => {
        const r = reqs[ri]
        rep.violations.push({ sig: `${kind}:${firstDiffField(a, b)}:${r.kind}`, what: `${kind}: request #${ri} (${r.kind}, config ${r.cfgName}) at history position ${pos}: ${firstDiffField(a, b)} differs: ${clip(a, 200)} VS ${clip(b, 200)}`, witness: Object.assign({ stream, request: r, position: pos, history: hist.slice(0, pos + 1), requests: reqs.map(q => ({ kind: q.kind, cfgName: q.cfgName, bytes: q.code.length })) }, extra || {}) })
      }
      hist.forEach(([ri], pos) => {
        const c = canon(first.rs[callIdx[pos]], prefixOf.get(histKeys[pos]))
        rep.evaluations++
        rep.distinct.push(hashStr(stream + ':' + ri + ':' + pos))
        if (c !== alone[ri]) report('history-dependence', ri, pos, alone[ri], c)
      })
      // prefix constant within an instance (when omitted)
      hist.forEach(([ri], pos) => {
        const p = prefixOf.get(histKeys[pos]); const r = first.rs[callIdx[pos]]
        if (r && r.ok && r.ok.raw.code && !/__datadog_/.test(reqs[ri].code)) { const used = new Set(); const re = /__datadog_([a-zA-Z0-9$]*?)_\d+\b/g; let m; while ((m = re.exec(r.ok.raw.code))) used.add(m[1]); for (const u of used) if (u !== p) rep.violations.push({ sig: 'prefix-not-constant', what: `instance prefix ${p} but output uses ${u}`, witness: { stream, request: reqs[ri] } }) }
      })
      // (d) the same history in other processes
      const P = ctx.tier === 'thorough' ? 4 : 2
      for (let p = 0; p < P; p++) {
        const again = runHistory({})
        const pre2 = new Map(); for (const [key, li] of made) pre2.set(key, again.rs[li] && again.rs[li].ok ? again.rs[li].ok.prefix : null)
        hist.forEach(([ri], pos) => {
          const a = canon(first.rs[callIdx[pos]], prefixOf.get(histKeys[pos]))
          const b = canon(again.rs[callIdx[pos]], pre2.get(histKeys[pos]))
          rep.evaluations++
          if (a !== b) report('process-dependence', ri, pos, a, b)
        })
        bump('history_replays_in_other_processes')
      }
      bump('histories'); bump('calls', len); bump('instances', made.size)
      for (const r of reqs) rep.sets.request_kinds.push(r.kind + '/' + r.cfgName)
      if (rep.samples.length < 1) rep.samples.push({ history_length: len, distinct_requests: K, instances: made.size, first_calls: hist.slice(0, 12).map(([ri, ii]) => `${reqs[ri].kind}@${reqs[ri].cfgName}#${ii}`) })
    }
    return rep
  },
  async replay (w) {
    // re-run the single request alone in several processes and compare
    const r = w.request
    const outs = []
    for (let i = 0; i < 12; i++) { const h = new Harness(); const rs = h.run([{ op: 'new', rw: 's', config: r.config }, { op: 'rewrite', rw: 's', code: r.code, file: r.file, reader: r.reader }]); outs.push(canon(rs[1], rs[0].ok ? rs[0].ok.prefix : null)) }
    const distinct = new Set(outs)
    return { violations: distinct.size > 1 ? [{ sig: 'process-dependence:replay', what: `${distinct.size} different responses to the same request in 12 fresh processes` }] : [] }
  }
}
