'use strict'
// C09 — the embedded source map resolves rewritten positions to the right original place (token-level monitor).
const A = require('../lib/astmon')
const S = require('../lib/smap')
const { makeAligner } = require('../lib/stmtalign')
const { plan: structPlan, jobs: structJobs } = require('../lib/structwork')
const { rewriteJobs, kind } = require('../lib/pipeline')
const { Rng, hashStr, clip, lineStarts, splitLines, hasRawLsPs } = require('../lib/util')
const G = require('../lib/gen_hostile')

const basename = (f) => { const p = f.replace(/\/+$/, '').split('/'); return p[p.length - 1] }

function isRefOrBinding (n, parent, key) {
  if (n.type !== 'Identifier') return false
  if (!parent) return true
  if (parent.type === 'MemberExpression' && key === 'property' && !parent.computed) return false
  if ((parent.type === 'Property' || parent.type === 'MethodDefinition' || parent.type === 'PropertyDefinition') && key === 'key' && !parent.computed) return parent.type === 'Property' && parent.shorthand
  if (parent.type === 'LabeledStatement' || parent.type === 'BreakStatement' || parent.type === 'ContinueStatement') return false
  if (parent.type === 'MetaProperty') return false
  if ((parent.type === 'ImportSpecifier' && key === 'imported') || (parent.type === 'ExportSpecifier')) return false
  return true
}

function check (job, resp, prefix) {
  const violations = []
  const k = kind(resp)
  const out = { k }
  if (k !== 'ok-modified') return { out, violations }
  const sigBase = job.meta.placement ? `catalog:${job.meta.placement}:${job.meta.form}` : (job.meta.kind === 'corpus' ? 'corpus' : job.meta.kind === 'layout' ? 'layout' : 'random')
  const seen = new Set()
  const push = (kindS, what, extra) => { if (seen.has(kindS) && violations.length > 8) return; seen.add(kindS); violations.push({ sig: `${sigBase}:${kindS}`, what, witness: Object.assign({ code: job.code, config: job.config, cfgName: job.cfgName, meta: job.meta, file: job.file }, extra || {}) }) }
  // swc gives the first token after an HTML-like comment (`<!--`, `-->`) a position inside the comment: a lexer
  // quirk of the third-party parser on legacy syntax, not something the rewriter decides
  if (/<!--|^\s*-->/m.test(job.code)) { out.skipped = 'html-like-comment'; return { out, violations } }
  const file = job.file || '/app/src/prog.js'
  const t = S.splitTrailer(resp.ok.content)
  if (t.error) { push('trailer', t.error); return { out, violations } }
  const env = S.validateEnvelope(t.map)
  if (env.length) { push('envelope', env.join('; ')); return { out, violations } }
  const expectedSource = basename(file)
  if (JSON.stringify(t.map.sources) !== JSON.stringify([expectedSource])) push('sources', `sources ${JSON.stringify(t.map.sources)} but the input's base name is ${JSON.stringify(expectedSource)}`)
  let toks
  try { toks = S.decodeMappings(t.map) } catch (e) { push('mappings-undecodable', e.message); return { out, violations } }
  out.mappings = toks.length
  if (hasRawLsPs(job.code)) { out.skipped = 'raw-ls-ps-line-convention-ambiguous'; return { out, violations } }
  const inLines = splitLines(job.code)
  const outCode = t.code
  const outLines = splitLines(outCode)
  // range: every mapping points inside the input text
  for (const m of toks) {
    if (m.src === undefined) continue
    if (m.src < 0 || m.src >= t.map.sources.length) { push('source-index', `mapping ${m.genLine}:${m.genCol} has source index ${m.src}`); break }
    if (m.name !== undefined && (m.name < 0 || m.name >= (t.map.names || []).length)) { push('name-index', `name index ${m.name}`); break }
    if (m.srcLine < 0 || m.srcLine >= inLines.length || m.srcCol < 0 || m.srcCol > inLines[m.srcLine].replace(/\r$/, '').length + 1) {
      push('mapping-outside-input', `mapping ${m.genLine + 1}:${m.genCol} -> original ${m.srcLine + 1}:${m.srcCol}, but the input has ${inLines.length} lines${m.srcLine < inLines.length && m.srcLine >= 0 ? ' and that line has ' + inLines[m.srcLine].length + ' columns' : ''} (generated text: ${JSON.stringify((outLines[m.genLine] || '').slice(m.genCol, m.genCol + 20))})`, { mapping: m })
      break
    }
    if (m.genLine >= outLines.length || m.genCol > outLines[m.genLine].length) { push('generated-position-outside-output', `${m.genLine}:${m.genCol}`); break }
  }
  // statement alignment (needs both parses)
  let a, b
  const isMod = !!job.meta.module
  try { a = A.parse(job.code, { module: isMod, locations: true }) } catch (e) { const p = A.parseAuto(job.code, { locations: true }); if (p.error) { out.skipped = 'input-unparsable'; return { out, violations } } a = p.ast }
  try { b = A.parse(outCode, { module: a.sourceType === 'module', locations: true }) } catch (e) { out.skipped = 'output-unparsable'; return { out, violations } }
  const E = A.makeEraser(prefix)
  const AL = makeAligner(E.tempRe)
  const al = AL.align(a, b)
  out.aligned = al.problems.length === 0
  const byLine = S.indexByGenLine(toks)
  const lineStartsOut = lineStarts(outCode)
  const posOut = (line0, col) => lineStartsOut[line0] + col
  // copied identifiers: exact mapping to the same identifier text
  const prologueRanges = al.injected.filter(x => x.kind === 'prologue').map(x => [x.node.start, x.node.end])
  const inPrologue = (pos) => prologueRanges.some(([s, e]) => pos >= s && pos < e)
  let idents = 0
  let identBad = 0
  A.walk(b, (n, parent, key) => {
    if (n.type !== 'Identifier' || !isRefOrBinding(n, parent, key)) return
    if (n.name === '_ddiast' || E.tempRe.test(n.name) || inPrologue(n.start)) return
    const line0 = n.loc.start.line - 1
    const col = n.loc.start.column
    const l = byLine.get(line0) || []
    const m = l.find(x => x.genCol === col && x.src !== undefined)
    if (!m) {
      if (n.name === 'undefined') return // the injected guard value carries no position
      identBad++
      push('identifier-without-exact-mapping', `copied identifier \`${n.name}\` at generated ${line0 + 1}:${col} has no mapping starting at it`, { ident: n.name })
      return
    }
    idents++
    const origText = (inLines[m.srcLine] || '').slice(m.srcCol, m.srcCol + n.name.length)
    if (origText !== n.name) {
      if (n.name === 'undefined') return // injected receiver placeholder of a bare-call hook: carries the span of the call
      // escaped identifiers (a) spell differently: accept if the original token is an identifier escape
      if (/\\u/.test((inLines[m.srcLine] || '').slice(m.srcCol, m.srcCol + n.name.length * 6))) return
      identBad++
      push('identifier-maps-elsewhere', `copied identifier \`${n.name}\` at generated ${line0 + 1}:${col} maps to original ${m.srcLine + 1}:${m.srcCol} where the input reads ${JSON.stringify(origText)}`, { ident: n.name, mapping: m })
    }
  })
  out.identifiers = idents
  // injected / all tokens: original line within the line span of the aligned original statement
  if (out.aligned) {
    // innermost paired output statement for a generated offset
    const pairs = al.pairs.filter(p => p.out.type !== 'Program').map(p => ({ s: p.out.start, e: p.out.end, lo: p.in.loc.start.line - 1, hi: p.in.loc.end.line - 1, type: p.out.type }))
    const injectedLets = al.injected.filter(x => x.kind === 'let').map(x => ({ s: x.node.start, e: x.node.end, lo: x.encl.loc.start.line - 1, hi: x.encl.loc.end.line - 1 }))
    pairs.sort((x, y) => (x.e - x.s) - (y.e - y.s)) // smallest first => innermost
    let checked = 0
    for (const m of toks) {
      if (m.src === undefined) continue
      const off = posOut(m.genLine, m.genCol)
      if (inPrologue(off)) { push('prologue-token-mapped', `prologue token at generated ${m.genLine + 1}:${m.genCol} maps to original ${m.srcLine + 1}:${m.srcCol}; the prologue has no original text`, { mapping: m }); continue }
      let span = injectedLets.find(x => off >= x.s && off < x.e)
      if (!span) span = pairs.find(x => off >= x.s && off < x.e)
      if (!span) continue // between statements (closing braces of the program etc.)
      checked++
      if (m.srcLine < span.lo || m.srcLine > span.hi) push('token-outside-statement-span', `token at generated ${m.genLine + 1}:${m.genCol} (${JSON.stringify((outLines[m.genLine] || '').slice(m.genCol, m.genCol + 24))}) maps to original line ${m.srcLine + 1}, outside the original statement's lines ${span.lo + 1}-${span.hi + 1}`, { mapping: m, span })
    }
    out.tokensInStatements = checked
    // "any run-time position in rewritten code resolves to the correct original line": every TOKEN of the output that lies
    // inside a paired statement is looked up the way a consumer does (greatest mapping at or before the position, across
    // lines) - also the tokens that carry no mapping of their own - and must land inside the statement's line span
    let resolved = 0
    const sortedToks = toks.filter(x => x.src !== undefined).sort((x, y) => x.genLine - y.genLine || x.genCol - y.genCol)
    try {
      const acorn = require('../../vendor/acorn.js')
      for (const tk of acorn.tokenizer(outCode, { ecmaVersion: 'latest', sourceType: a.sourceType === 'module' ? 'module' : 'script', allowHashBang: true, locations: true })) {
        // only tokens an engine can report as the position of something that runs: names (call sites, property reads,
        // `call`/`apply`), `new`/`throw`/… keywords, binary and assignment operators, template starts - not brackets or commas
        const ty = tk.type
        if (!(ty.label === 'name' || ty.label === 'privateId' || ty.label === '`' || ty.binop != null || ty.isAssign || ty.label === '+/-' || ['new', 'throw', 'typeof', 'delete', 'void', 'in', 'instanceof', 'yield', 'super', 'this'].includes(ty.keyword))) continue
        const off = tk.start
        if (inPrologue(off)) continue
        // an injected declaration belongs to its block: positions on it resolve into the block's line span
        const span = injectedLets.find(x => off >= x.s && off < x.e) || pairs.find(x => off >= x.s && off < x.e)
        if (!span) continue
        const m = S.lookupGlobal(sortedToks, tk.loc.start.line - 1, tk.loc.start.column)
        if (!m) continue
        resolved++
        if (m.srcLine < span.lo || m.srcLine > span.hi) { push('position-resolves-outside-statement-span', `the output token ${JSON.stringify(outCode.slice(tk.start, Math.min(tk.end, tk.start + 24)))} at generated ${tk.loc.start.line}:${tk.loc.start.column} has no mapping of its own; a lookup of its position answers with the mapping at generated ${m.genLine + 1}:${m.genCol}, original line ${m.srcLine + 1}, outside the statement's span ${span.lo + 1}-${span.hi + 1}`, { token: outCode.slice(tk.start, tk.end) }); break }
      }
    } catch (e) { /* tokenizer errors: the parse above succeeded, nothing to add */ }
    out.positionsResolved = resolved
  }
  return { out, violations }
}

// layout-heavy generated inputs: multi-line statements, CRLF, BOM, tabs, non-ASCII before identifiers
function layoutProgram (rng) {
  const nl = rng.bool(0.25) ? '\r\n' : '\n'
  const pre = rng.pick(['', '', '/* é€😀 */ ', '\t\t', "'ünï😀' + "])
  const L = []
  if (rng.bool(0.1)) L.push('﻿// bom file')
  // (where the opening brace of the function sits: same line, its own line, or after parameters written one per line)
  L.push(rng.pick(['function layout(alpha, beta, gamma) {', 'function layout(alpha, beta, gamma) {', `function layout(alpha, beta, gamma)${nl}{`, `function layout(${nl}  alpha,${nl}  beta,${nl}  gamma${nl}) {`]))
  L.push(`  const first = ${pre}alpha +${nl}      beta${nl}      + gamma.trim();`)
  L.push(`  let second = \`\${alpha}${nl}  \${beta}\`${rng.bool() ? ';' : ''}`)
  L.push(`  second += alpha${nl}    .concat(beta,${nl}       gamma)${nl}    .trim()`)
  L.push('  if (alpha) second += beta; else second = gamma + alpha')
  L.push(`  const arrow = (delta) => ${pre}delta + alpha${nl}    + beta`)
  L.push(`  for (const item of [alpha, beta]) {${nl}    second += item?.trim()${nl}  }`)
  // statements that BEGIN with an injected construct (nothing of the statement precedes it): a lowered optional chain, a
  // hoisted call, a split += target - each right after another statement
  L.push('  beta?.trim();')
  L.push(`  gamma?.alpha${nl}    .concat(beta).length;`)
  L.push('  alpha.concat(beta).trim();')
  L.push('  gamma[alpha + beta] += second;')
  L.push(`  return arrow(${pre}second) + /* c */ first`)
  L.push('}')
  if (rng.bool(0.3)) L.push('export default layout')
  return L.join(nl) + nl
}

module.exports = {
  id: 'C09',
  level: 'exploration',
  rule: 'for every modified output the embedded map is decoded by an independent VLQ decoder; monitors: v3 envelope; sources == [basename(file)]; every mapping inside the input text; every copied variable reference/binding of the output (acorn AST, injected names excluded) has a mapping starting exactly at it that lands exactly on the same identifier text in the input; every mapped token of the output lies, after statement-level alignment of output and input, within the line span of the original statement it belongs to (injected let: enclosing block; prologue: must not be mapped). Workload: corpus, catalogue, random programs, layout programs (multi-line statements, CRLF, BOM, tabs, non-ASCII before identifiers), hostile file names. distinct_nontrivial = distinct (input, config, file) outputs whose map was fully checked. Workload additions: corpus files with enabled operations spliced onto randomly chosen expression nodes (25 wrappers x every expression slot; only texts V8 still compiles), the syntax zoo with LF/CRLF/CR line endings, a CRLF slice of the corpus. Call-history variant: a quarter of the layout programs run with chaining on (no map comment of their own, so the plain map is due) right after a transpiled predecessor whose inline map names a foreign source, on the same rewriter in the same process - the successor\'s map must not show anything of it. Position monitor: every output token that an engine can report as a run-time position (names, `new`/`throw`/… keywords, binary and assignment operators, template starts) inside a paired statement is looked up the way a consumer does (greatest mapping at or before it, across lines) - including the injected tokens that carry no mapping of their own - and must resolve to a line of that statement.',
  assumptions: ['columns are UTF-16 code units on both sides (what V8 reports)', 'inputs with HTML-like comments (<!-- / -->) are skipped: swc positions the following token inside the comment', 'lines end at LF, CRLF or a lone CR (swc, V8 and acorn agree); inputs with raw U+2028 / U+2029 are skipped and counted: swc does not count them as line breaks while V8 and acorn do, so which line is the right one is not defined by the statement', 'files whose statements cannot be aligned (count mismatch) only get the envelope/range/identifier checks and are counted'],
  plan (ctx) {
    const shards = [{ kind: 'layout', count: ctx.tier === 'thorough' ? 6000 : 800 }]
    for (const s of structPlan(ctx, { quickCorpus: 280, exec: { quickRandom: 1500, quickFormsPerPlacement: 8, thoroughRandom: 20000 } })) shards.push(s)
    return shards
  },
  minEvaluations () { return 300 },
  async runShard (spec, ctx) {
    let js
    const rng = new Rng(ctx.seed, 'c09', spec.stream || 0)
    if (spec.kind === 'layout') {
      js = []
      for (let i = 0; i < spec.count; i++) { const code = layoutProgram(rng.fork(i)); js.push({ code, file: rng.bool(0.5) ? rng.pick(G.FILE_NAMES.filter(f => basename(f))) : '/srv/app/layout.js', meta: { kind: 'layout', module: /export default/.test(code) }, config: require('../lib/cfgset').SETS[rng.pick(['FULL', 'COMMENTS', 'RENAMED'])], cfgKey: 'L' + (i % 3), cfgName: 'layout' }) }
      // size must not matter: one program of the shard is preceded by a generated data table that makes the file larger than
      // half a megabyte (bundles and generated tables are that big; thresholds on size are a natural place for special cases)
      if (js.length > 3) { const big = js[3]; const rows = Array.from({ length: 9000 }, (_, k) => `  ['row-${k}', ${k}, 'padding padding padding padding padding'],`).join('\n'); big.code = 'const TABLE = [\n' + rows + '\n]\n' + big.code; big.meta = Object.assign({}, big.meta, { big: true }) }
      // chaining switched on for files that declare no map of their own (the plain map is due), each preceded - in the same
      // process, on the same rewriter - by a transpiled file whose inline map names another source: nothing of the
      // predecessor may show in the successor's map
      const foreign = Buffer.from(JSON.stringify({ version: 3, file: 'pre.js', sources: ['FOREIGN-PREDECESSOR.ts'], names: ['foreignName'], mappings: 'AAAAA;AACA;AACA;AACA;AACA;AACA;AACA;AACA' })).toString('base64')
      const withChain = []
      js.forEach((j, i) => {
        if (i % 4 !== 1) { withChain.push(j); return }
        const cfgChain = Object.assign({}, j.config, { chainSourceMap: true })
        const keep = i % 8 === 1 // the predecessor is modified / is not modified (its comments are then never consumed by the printer)
        withChain.push({ code: (keep ? 'function pre(a, b) { return a + b }\n' : 'var pre = 1\n') + '//# sourceMappingURL=data:application/json;base64,' + foreign + '\n', file: '/srv/app/pre.js', meta: { kind: 'layout-predecessor', notJudged: true }, config: cfgChain, cfgName: 'layout+chain' })
        withChain.push(Object.assign({}, j, { config: cfgChain, cfgName: 'layout+chain' }))
      })
      js = withChain
      js.forEach((j, i) => { j.cfgKey = JSON.stringify(j.config).length + ':' + (j.config.comments ? 'c' : 'n') + (j.config.chainSourceMap ? 'C' : '') + (j.config.csiMethods[0].dst || '') })
    } else js = structJobs(spec, ctx)
    const { responses, prefixes } = rewriteJobs(js)
    const rep = { evaluations: 0, distinct: [], violations: [], inconclusive: [], samples: [], counters: {}, sets: {} }
    const bump = (k, n = 1) => { rep.counters[k] = (rep.counters[k] || 0) + n }
    for (let i = 0; i < js.length; i++) {
      if (js[i].meta.notJudged) { bump('chained_predecessors'); continue }
      const { out, violations } = check(js[i], responses[i], prefixes[i])
      bump('status:' + out.k)
      if (['abort', 'timeout', 'harness'].includes(out.k)) { rep.inconclusive.push({ reason: 'harness-' + out.k, detail: js[i].meta.sigBase }); continue }
      if (out.k !== 'ok-modified') continue
      if (out.skipped) { bump(out.skipped); continue }
      rep.evaluations++
      bump('mappings_decoded', out.mappings || 0); bump('copied_identifiers_with_exact_mapping', out.identifiers || 0); bump('tokens_checked_against_statement_span', out.tokensInStatements || 0); bump('output_token_positions_resolved_into_their_statement', out.positionsResolved || 0)
      if (!out.aligned) bump('statement_alignment_failed')
      rep.distinct.push(hashStr(js[i].code + js[i].cfgName + (js[i].file || '')))
      if (rep.samples.length < 2 && js[i].code.length < 700) rep.samples.push({ input: js[i].code, file: js[i].file, mappings: out.mappings, identifiers: out.identifiers, tokens_in_statements: out.tokensInStatements })
      for (const v of violations) rep.violations.push(v)
    }
    return rep
  },
  async replay (w) {
    const job = { code: w.code, meta: w.meta, config: w.config, cfgName: w.cfgName, file: w.file }
    const { responses, prefixes } = rewriteJobs([Object.assign({ cfgKey: 'replay' }, job)])
    return { violations: check(job, responses[0], prefixes[0]).violations }
  },
  check
}
