'use strict'
// C01 — pass-through hooks => observational equivalence (differential execution in fresh V8 realms).
const { plan, jobs } = require('../lib/execwork')
const { rewriteJobs, kind } = require('../lib/pipeline')
const { differential } = require('../lib/diffexec')
const { compile } = require('../lib/world')
const { hashStr, Rng, clip } = require('../lib/util')

const O = { quickFormsPerPlacement: 10, quickRandom: 3000, thoroughRandom: 30000, thoroughVariants: 3 }

async function checkJob (job, resp, faults, rng) {
  // returns {status, violation?, stats}
  const isModule = job.meta.module
  const ce = compile(job.code, isModule)
  if (ce) return { status: 'invalid-input', detail: ce }
  const k = kind(resp)
  if (k !== 'ok-modified') return { status: k }
  const d = await differential(job.code, resp.ok.content, { module: isModule, faults, hooks: ['identity', 'none'], rng })
  if (d.divergences.length) {
    const dv = d.divergences[0]
    return {
      status: 'diverged',
      d,
      violation: {
        sig: job.meta.sigBase === 'random' ? `random:${dv.diff.kind}` : job.meta.sigBase,
        what: `rewritten program diverges from input (${dv.diff.kind}, hooks=${dv.hooks}, faultAt=${dv.faultAt}): input ${clip(dv.diff.input, 120)} vs output ${clip(dv.diff.output, 120)}; after ${JSON.stringify((dv.diff.context || []).slice(-2))}`,
        witness: { code: job.code, cfgName: job.cfgName, config: job.config, module: isModule, meta: job.meta, divergence: dv, content: resp.ok.content }
      }
    }
  }
  return { status: d.inconclusive ? 'inconclusive' : 'held', d }
}

module.exports = {
  id: 'C01',
  level: 'exploration',
  rule: 'catalogue programs (placement x operation form; Latin-square slice in quick, full cross product in thorough) and random grammar-generated programs over an observable Proxy world, each rewritten by the real rewriter and executed (input vs output) in fresh V8 contexts, clean and with a WorldFault injected at sampled/all event indices, with identity hooks and with no _ddiast (prologue pass-throughs). distinct_nontrivial = distinct programs whose output was modified and whose clean run produced >= 3 world events. Workload additions: the syntax zoo (49 programs x LF/CRLF/CR line endings), and operation splicing - zoo programs, every seventh catalogue program and every fifth random program also run with further enabled operations grafted onto randomly chosen sub-expressions in a value-preserving way ((x is a primitive ? OP(x) : 0, x)).',
  assumptions: [
    'V8 (node 20) is the reference semantics; native build of /repo/src stands in for the wasm build',
    'world limits: callee functions are ordinary functions (the .call lookup of re-dispatch is not observed); with-scope lookups and accessor-backed globals are not observed, so the deliberate re-read of plain identifier operands is invisible',
    'carve-outs of the statement are generator constraints: exceptions compared by constructor name + world tag; X.prototype.m.call/apply has an effect-free path or this-argument; substitutions after a coercion-logged object in a template are effect-free; positions never compared',
    'known-defect shapes (D6/D21/D26/D27) are generated only as canonical witness programs (known_findings.json)'
  ],
  plan (ctx) { return plan(ctx, O) },
  minEvaluations (ctx) { return ctx.tier === 'thorough' ? 5000 : 300 },
  async runShard (spec, ctx) {
    const js = jobs(spec, ctx)
    const { responses } = rewriteJobs(js)
    const rep = { evaluations: 0, distinct: [], violations: [], inconclusive: [], samples: [], counters: {}, sets: { placements: [], forms: [] } }
    const rng = new Rng(ctx.seed, 'faults', spec.stream || 0)
    const faults = ctx.tier === 'thorough' ? 'all' : 10
    const bump = (k, n = 1) => { rep.counters[k] = (rep.counters[k] || 0) + n }
    for (let i = 0; i < js.length; i++) {
      const r = await checkJob(js[i], responses[i], faults, rng)
      bump('status:' + r.status)
      if (r.status === 'abort' || r.status === 'timeout' || r.status === 'harness') rep.inconclusive.push({ reason: 'harness-' + r.status, detail: clip(JSON.stringify(responses[i]), 300) })
      if (r.status === 'err') rep.sets.rewriter_errors = (rep.sets.rewriter_errors || []).concat([clip(responses[i].err, 160) + ' <= ' + clip(js[i].meta.sigBase + ':' + (js[i].meta.variant || ''), 80)])
      if (r.status === 'invalid-input') rep.sets.invalid_inputs = (rep.sets.invalid_inputs || []).concat([clip(r.detail, 100) + ' <= ' + js[i].meta.sigBase])
      if (r.status === 'inconclusive') rep.inconclusive.push({ reason: 'exec-timeout', detail: js[i].meta.sigBase })
      if (r.d) {
        rep.evaluations++
        if (js[i].meta.splices) bump('programs_with_spliced_operations')
        if (js[i].meta.eol) bump('programs_with_' + js[i].meta.eol + '_line_endings')
        bump('runs', r.d.runs); bump('world_events_clean', r.d.events)
        if (r.d.events >= 3) rep.distinct.push(hashStr(js[i].code))
        if (js[i].meta.placement) { rep.sets.placements.push(js[i].meta.placement); rep.sets.forms.push(js[i].meta.form) }
        if (rep.samples.length < 2 && r.status === 'held') rep.samples.push({ input: clip(js[i].code, 500), config: js[i].cfgName, clean_run_events: r.d.events, runs: r.d.runs, completion: r.d.baseCompletion })
      }
      if (r.violation) rep.violations.push(r.violation)
    }
    return rep
  },
  async replay (w, ctx) {
    const { responses } = rewriteJobs([{ code: w.code, config: w.config, cfgKey: 'replay' }])
    const r = await checkJob({ code: w.code, meta: w.meta, cfgName: w.cfgName, config: w.config }, responses[0], 'all', new Rng(1))
    return { violations: r.violation ? [r.violation] : [] }
  },
  checkJob
}
