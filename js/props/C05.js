'use strict'
// C05 — configuration honoured exactly; only configured hooks referenced; documented defaults; prologue semantics.
const vm = require('vm')
const A = require('../lib/astmon')
const P = require('../lib/policy')
const S = require('../lib/smap')
const { rewriteJobs, kind } = require('../lib/pipeline')
const { analyze } = require('../lib/structan')
const { dstMap } = require('../lib/configs')
const { Harness } = require('../lib/rw')
const { run } = require('../lib/world')
const { Rng, hashStr, clip } = require('../lib/util')

// (several names are substrings / prefixes of others, and some coincide with words of the prologue's own text)
const POOL = ['trim', 'concat', 'substring', 'replace', 'slice', 'join', 'toUpperCase', 'padStart', 'repeat', 'charAt', 'split', 'plusOperator', 'tplOperator', 'call', 'apply', 'prototype', 'default', 'class', 'constructor', 'toString', 'aloneMethod', 'valueOf', 'substr', 'replaceAll', 'trimStart', 'at', 'pad', 'noop', 'res']
const DST_NAMES = ['h1', 'stringTrim', 'ω_hook', 'default', 'class', '$x', '_y9', 'concat', 'plusOperator', 'trim', 'string', 'h', 'x', 'noop', 'op', 'globals', 'Trim', 'stringTrimStart']

function randomConfig (rng) {
  const c = {}
  const methods = []
  if (rng.bool(0.7)) methods.push(Object.assign({ src: 'plusOperator', operator: true }, rng.bool(0.4) ? { dst: rng.pick(DST_NAMES) } : {}))
  if (rng.bool(0.7)) methods.push(Object.assign({ src: 'tplOperator', operator: true }, rng.bool(0.4) ? { dst: rng.pick(DST_NAMES) } : {}))
  for (const m of rng.sample(POOL, rng.range(0, 9))) {
    const e = { src: m }
    if (rng.bool(0.45)) e.dst = rng.pick(DST_NAMES)
    if (rng.bool(0.1)) e.dst = null
    if (rng.bool(0.25)) e.allowedWithoutCallee = rng.bool(0.8)
    if (rng.bool(0.12)) e.operator = rng.bool(0.7) // operator flag on a method name: enables nothing
    // an option present with the value null reads as omitted (the rest of the configuration must be honoured all the same)
    if (rng.bool(0.08)) e.operator = null
    if (rng.bool(0.08)) e.allowedWithoutCallee = null
    methods.push(e)
  }
  if (rng.bool(0.15) && methods.length) methods.push(Object.assign({}, rng.pick(methods), { dst: 'dupDst' })) // duplicate source, first wins
  const shuffled = rng.shuffle(methods)
  if (rng.bool(0.92)) c.csiMethods = shuffled
  if (rng.bool(0.6)) c.localVarPrefix = rng.pick(['test', '', 'p', 'x'.repeat(40), '$', '123', 'ñ'])
  if (rng.bool(0.4)) c.chainSourceMap = rng.bool()
  if (rng.bool(0.4)) c.comments = rng.bool()
  if (rng.bool(0.4)) c.literals = rng.bool()
  if (rng.bool(0.5)) c.telemetryVerbosity = rng.pick(['OFF', 'MANDATORY', 'INFORMATION', 'DEBUG', 'debug', 'junk'])
  for (const k of ['chainSourceMap', 'comments', 'literals', 'telemetryVerbosity', 'localVarPrefix']) if (rng.bool(0.04)) c[k] = null
  if (rng.bool(0.1)) c.unknownField = { x: 1 }
  return c
}

// a program that mentions every pool method (several receiver shapes), both operators, bare calls and prototype calls
function mentionProgram (rng, n) {
  const lines = []
  let k = 0
  const id = () => 'w.s' + (++k + 100)
  const ms = rng.sample(POOL, n)
  lines.push('(function main(w) {')
  lines.push('  let a = w.s1, b = w.s2, acc = w.s3;')
  for (const m of POOL) if (/^[a-zA-Z_$][\w$]*$/.test(m) && !['default', 'class', 'call', 'apply', 'prototype', 'constructor', 'toString', 'valueOf'].includes(m)) lines.push(`  function ${m}(x) { return w.id${++k}(x) }`)
  for (const m of ms) {
    const shape = rng.int(7)
    const safe = !['call', 'apply', 'prototype', 'constructor'].includes(m)
    if (shape === 0) lines.push(`  w.out(w.o${++k}.${m}(${id()}));`)
    else if (shape === 1 && safe) lines.push(`  w.out(w.o${++k}?.${m}(${id()}));`)
    else if (shape === 2 && /^[a-zA-Z_$][\w$]*$/.test(m) && !['default', 'class', 'call', 'apply', 'prototype', 'constructor', 'toString', 'valueOf'].includes(m)) lines.push(`  w.out(${m}(${id()}));`)
    else if (shape === 3 && safe) lines.push(`  w.out(w.X${++k}.prototype.${m}.call(a, ${id()}));`)
    else if (shape === 4) lines.push(`  w.out((w.o${++k}).${m}(a + b, \`\${a}:\${b}\`));`)
    else if (shape === 5) lines.push(`  w.out(w.fobj${++k}().${m}());`)
    else lines.push(`  if (w.b1) w.out(w.o${++k}.${m}(a)); else w.out(w.o${++k}['${m}'](b));`)
  }
  lines.push('  acc += a + w.f9();')
  lines.push('  w.out(`${acc}|${b}`);')
  lines.push("  return acc + 'z';")
  lines.push('}).call(w.t, w)')
  return lines.join('\n') + '\n'
}

async function checkPrologue (job, resp, dm, push) {
  // (f) prologue semantics under the real V8
  const content = resp.ok.content
  const a = await run(job.code, {})
  const b = await run(content, { hooks: 'none' })
  if (a.timedOut || b.timedOut) return { inconclusive: true }
  if (a.completion !== b.completion || a.log.join('\n') !== b.log.join('\n')) push('prologue-run-differs', `running the output without _ddiast differs from the input: ${a.completion} vs ${b.completion}`)
  let installed
  try { installed = vm.runInContext('typeof _ddiast === "object" && _ddiast !== null ? Object.keys(_ddiast) : null', b.ctx) } catch (e) { installed = null }
  if (!installed) push('prologue-no-object', 'after running the output in a realm without _ddiast, no _ddiast object exists')
  else {
    const exp = Array.from(dm.all).sort()
    const got = Array.from(installed).sort()
    if (JSON.stringify(exp) !== JSON.stringify(got)) push('prologue-names', `prologue defines ${JSON.stringify(got)} but configured replacement names are ${JSON.stringify(exp)}`)
    const passThrough = vm.runInContext('Object.keys(_ddiast).every(k => { const s = {}; return typeof _ddiast[k] === "function" && _ddiast[k](s, 1, 2) === s })', b.ctx)
    if (!passThrough) push('prologue-not-passthrough', 'a prologue hook does not return its first argument')
  }
  // pre-installed hook object must survive
  const c = await run(content, { hooks: 'record' })
  if (c.timedOut) return { inconclusive: true } // wall clock decides nothing: a watchdog firing on a loaded machine is not a verdict
  const still = vm.runInContext('_ddiast', c.ctx)
  if (c.ctx._ddiast === undefined || still === undefined) push('prologue-overwrote', 'pre-installed _ddiast missing after the run')
  else if (c.hookCalls.length === 0 && b.log.length === c.log.length && resp.ok.metrics.instrumentedPropagation > 0 && !/^throw/.test(c.completion) && a.log.length > 3) {
    // the program ran hooks sites (same effects) but the installed object never saw a call => it was replaced
    push('prologue-overwrote', 'pre-installed _ddiast received no call although hook sites executed')
  }
  if (c.completion !== a.completion) push('prologue-run-differs-installed', `with a pre-installed _ddiast the result differs: ${a.completion} vs ${c.completion}`)
  return { hookCalls: c.hookCalls.length }
}

async function check (job, resp, prefix, opts = {}) {
  const violations = []
  const sigBase = job.meta.family || 'cfg'
  const push = (kind, what, extra) => violations.push({ sig: `${sigBase}:${kind}`, what, witness: Object.assign({ code: job.code, config: job.config, meta: job.meta }, extra || {}) })
  const r = analyze(job, resp, prefix)
  const out = { r }
  if (r.status !== 'ok-modified' && r.status !== 'ok-notmodified') return { out, violations }
  const dm = r.dm || dstMap(job.config)
  const noMethods = dm.all.size === 0 || (dm.plus === null && dm.tpl === null && dm.methods.size === 0)
  if (noMethods && r.status === 'ok-modified') push('modified-with-nothing-enabled', 'no operation is enabled by the configuration but the file was reported modified')
  if (r.status === 'ok-modified') {
    // (b) closed world of hook names
    for (const n of r.hookSites) if (!dm.all.has(n)) push('unconfigured-hook-name', `output dereferences _ddiast.${n}, which is not a configured replacement name (${JSON.stringify(Array.from(dm.all))})`)
    if (r.otherDdiastRefs.some(x => x === 'computed-member')) push('computed-ddiast-member', 'output dereferences _ddiast with a computed member')
    if (r.aligned) {
      for (const m of r.notEnabled) push('hook-on-not-enabled-operation', `hook _ddiast.${m.name} wraps an operation that the configuration does not enable: \`${clip(job.code.slice(m.node.start, m.node.end), 80)}\` (${JSON.stringify(m.op)})`)
      for (const m of r.wrongName) push('wrong-hook-name', `operation \`${clip(job.code.slice(m.node.start, m.node.end), 80)}\` wrapped by _ddiast.${m.name}, configured replacement is ${m.expected}`)
      for (const m of r.missed) if (!m.req.applyNonLiteralList) push('enabled-operation-not-instrumented', `enabled operation not instrumented under this configuration: \`${clip(job.code.slice(m.node.start, m.node.end), 80)}\` (${JSON.stringify(m.req)})`)
    } else out.unaligned = true
    if (opts.exec) {
      const pr = await checkPrologue(job, resp, dm, push)
      out.exec = pr
    }
  } else if (r.required > 0 && !r.requiredNodes.every(n => n.__req.applyNonLiteralList)) push('enabled-operation-not-instrumented', `file not modified although the configuration enables ${r.required} operation(s) in it`)
  // (e) defaults observed behaviourally
  const cfgc = Object.fromEntries(Object.entries(job.config || {}).filter(([, v]) => v !== null)) // null reads as omitted
  const ok = resp.ok
  if (cfgc.literals === undefined && (ok.literalsResult === null || ok.literalsResult === undefined)) push('default-literals', 'literals omitted but no literalsResult was produced (default is on)')
  if (cfgc.literals === false && ok.literalsResult) push('literals-off-ignored', 'literals:false but a literalsResult was produced')
  const v = cfgc.telemetryVerbosity
  if (v === undefined && ok.metrics && ok.metrics.propagationDebug) push('default-verbosity', 'verbosity omitted but a debug breakdown was produced (default is INFORMATION)')
  if (v === undefined && r.status === 'ok-modified' && ok.metrics.instrumentedPropagation === 0) push('default-verbosity', 'verbosity omitted but the count is zero (default is INFORMATION)')
  if (cfgc.localVarPrefix === undefined) { if (!/^[a-z]{6}$/.test(prefix)) push('default-prefix', `omitted localVarPrefix gave ${JSON.stringify(prefix)}, not six lowercase letters`) } else if (prefix !== cfgc.localVarPrefix) push('prefix-ignored', `localVarPrefix ${cfgc.localVarPrefix} but rewriter uses ${prefix}`)
  if (r.status === 'ok-modified') {
    const t = S.splitTrailer(ok.content)
    if (!t.error) {
      if (!cfgc.comments && /\/\*\s*c05-comment|\/\/ c05-comment/.test(t.code)) push('default-comments', 'comments not enabled but input comments were printed')
      if (cfgc.comments === true && /c05-comment/.test(job.code) && !/c05-comment/.test(t.code)) push('comments-on-ignored', 'comments:true but input comments are missing')
      if (!cfgc.chainSourceMap && job.meta.hasInlineMap && JSON.stringify(t.map.sources) !== JSON.stringify([(job.file || '/app/src/prog.js').split('/').pop()])) push('default-chain', 'chaining not enabled but the emitted map was chained: sources ' + JSON.stringify(t.map.sources))
    }
    const tempNames = new Set()
    if (r.b || r.a) { /* temps were erased; look at raw */ }
    const re = /__datadog_([^\s_(),;=.]*?)_(\d+)\b/g
    let m
    while ((m = re.exec(ok.raw.code))) tempNames.add(m[1])
  }
  return { out, violations }
}

const INLINE_MAP = '\n//# sourceMappingURL=data:application/json;base64,' + Buffer.from(JSON.stringify({ version: 3, sources: ['orig.ts'], names: [], mappings: 'AAAA;AACA;AACA;AACA;AACA;AACA;AACA;AACA' })).toString('base64') + '\n'

module.exports = {
  id: 'C05',
  level: 'exploration',
  rule: 'random configurations (operator subsets x random subsets of a 22-name method pool incl. call/apply/prototype/default/class/plusOperator-as-method, dst omitted/renamed/shared/null, allowedWithoutCallee, stray operator flags, duplicates, every option present/omitted, unknown fields, undeserialisable configs) against programs that mention every pool method in several receiver shapes next to + / += / templates / bare calls / prototype calls. Monitors: hook names emitted subset of configured dst (census), hook only on enabled operations with the configured name and on every enabled required operation (alignment + policy), monotonicity between a configuration and its sub-configuration, defaults observed in the response, prologue semantics executed under V8 in realms with no / pre-installed _ddiast. distinct_nontrivial = distinct (configuration, program) pairs with a decided result. Re-prologue shard: a second pass (configuration B) over the OUTPUT of a first pass (a sub-configuration A of B, own prefix) and over user code that merely opens with `if (typeof _ddiast === \'undefined\')`: executed without hooks, the result must define a pass-through for every name configured in B and (for the two-pass case) behave like the original input.',
  assumptions: ['replacement names and prefixes are identifier-valid strings (incl. keywords, non-ASCII, $); other strings cannot be spelled as usable names in the API contract', 'duplicate sources: first entry wins (as a list lookup does); this is what the model assumes'],
  plan (ctx) {
    const n = ctx.tier === 'thorough' ? 12000 : 1500
    const per = 60
    const shards = []
    for (let k = 0; k < Math.ceil(n / per); k++) shards.push({ kind: 'cfg', count: per, stream: k })
    shards.push({ kind: 'defaults' })
    // inputs that already open with the prologue's own test: output of an earlier pass (another, shorter configuration), or user code
    for (let k = 0, m = ctx.tier === 'thorough' ? 16 : 2; k < m; k++) shards.push({ kind: 'reprologue', count: 40, stream: 800 + k })
    shards.push({ kind: 'miri', calls: ctx.tier === 'thorough' ? 4000 : 400 })
    return shards
  },
  minEvaluations () { return 300 },
  async runShard (spec, ctx) {
    const rep = { evaluations: 0, distinct: [], violations: [], inconclusive: [], samples: [], counters: {}, sets: { hook_names_seen: [] } }
    const bump = (k, n = 1) => { rep.counters[k] = (rep.counters[k] || 0) + n }
    if (spec.kind === 'miri') {
      // the only unsafe block of the repository (util::rnd_string, get_unchecked) under the UB interpreter, in isolation
      const { spawnSync } = require('child_process')
      const path = require('path')
      const dir = path.join(__dirname, '..', '..', 'miri_util')
      const env = Object.assign({}, process.env, { CARGO_NET_OFFLINE: 'true', CARGO_TARGET_DIR: path.join(__dirname, '..', '..', '.build', 'miri'), MIRIFLAGS: ctx.tier === 'thorough' ? '-Zmiri-many-seeds=0..4' : '' })
      const r = spawnSync('cargo', ['+nightly', 'miri', 'run', '--offline', '--', String(spec.calls)], { cwd: dir, env, encoding: 'utf8', timeout: 900000, maxBuffer: 1 << 26 })
      const all = (r.stdout || '') + (r.stderr || '')
      if (/Undefined Behavior|error: unsupported operation|panicked at/.test(all)) {
        rep.violations.push({ sig: 'miri:' + clip((all.match(/(Undefined Behavior[^\n]*|panicked at[^\n]*\n[^\n]*)/) || ['report'])[0].replace(/\d+/g, 'N'), 90), what: 'Miri reported on util.rs (rnd_string / file_name): ' + clip(all.slice(all.search(/Undefined Behavior|panicked at/)), 1200), witness: { calls: spec.calls } })
      } else if (r.status === 0 && /rnd_string: \d+ calls/.test(all)) {
        const m = /rnd_string: (\d+) calls, (\d+) distinct/.exec(all)
        rep.evaluations += 1
        rep.distinct.push('miri-run-a', 'miri-run-b')
        bump('miri_rnd_string_calls', (+m[1]) * (ctx.tier === 'thorough' ? 4 : 1)); bump('miri_runs')
      } else rep.inconclusive.push({ reason: 'miri-unavailable', detail: clip(all, 300) })
      return rep
    }
    if (spec.kind === 'defaults') {
      // undeserialisable / wrong-typed configs fall back to documented defaults; omitted prefix is random per rewriter
      const h = new Harness()
      const reqs = []
      const texts = ['{bad', '[]', '42', 'null', '{"csiMethods": "nope"}', '{"csiMethods":[{"dst":"x"}]}', '{"chainSourceMap":"yes"}', '{"telemetryVerbosity": 7}', '{"localVarPrefix": 5}']
      texts.forEach((t, i) => reqs.push({ op: 'new', rw: 'u' + i, config_text: t }))
      texts.forEach((t, i) => reqs.push({ op: 'rewrite', rw: 'u' + i, code: '{ const a = b + c(); d.trim() }', file: '/x/y.js' }))
      const N = ctx.tier === 'thorough' ? 2000 : 400
      for (let i = 0; i < N; i++) reqs.push({ op: 'new', rw: 'p' + i, config: { csiMethods: [{ src: 'plusOperator', operator: true }] } })
      for (let i = 0; i < 20; i++) { reqs.push({ op: 'rewrite', rw: 'p' + i, code: '{ const a = b + c(); { let q = a + b } }', file: '/x/z.js' }); reqs.push({ op: 'rewrite', rw: 'p' + i, code: 'function f(){ return x + y() }', file: '/x/z2.js' }) }
      const rs = h.run(reqs)
      const push = (kind, what, extra) => rep.violations.push({ sig: `defaults:${kind}`, what, witness: extra || {} })
      texts.forEach((t, i) => {
        const nw = rs[i]; const rwr = rs[texts.length + i]
        rep.evaluations++
        if (!nw.ok) { push('new-failed', `constructing a rewriter from ${t} failed: ${JSON.stringify(nw).slice(0, 200)}`, { config_text: t }); return }
        if (!/^[a-z]{6}$/.test(nw.ok.prefix)) push('fallback-prefix', `config ${t}: prefix ${nw.ok.prefix}`, { config_text: t })
        if (!/chain_source_map: false, print_comments: false/.test(nw.ok.dump) || !/verbosity: Information, literals: true/.test(nw.ok.dump) || nw.ok.csi.length) push('fallback-defaults', `config ${t} did not fall back to the documented defaults: ${nw.ok.dump}`, { config_text: t })
        if (kind(rwr) !== 'ok-notmodified') push('fallback-modified', `undeserialisable config ${t}: rewrite result ${kind(rwr)}`, { config_text: t })
      })
      const prefixes = []
      for (let i = 0; i < N; i++) { const r = rs[2 * texts.length + i]; if (r.ok) prefixes.push(r.ok.prefix) }
      const bad = prefixes.filter(p => !/^[a-z]{6}$/.test(p))
      if (bad.length) push('default-prefix', `omitted prefix produced ${JSON.stringify(bad.slice(0, 3))}`)
      const distinct = new Set(prefixes).size
      if (distinct < N * 0.98) push('default-prefix-not-random', `${N} rewriters got only ${distinct} distinct prefixes`)
      const letters = new Set(prefixes.join(''))
      bump('default_prefixes_observed', prefixes.length); bump('default_prefix_distinct', distinct); bump('default_prefix_letters_seen', letters.size)
      // constant within one rewriter
      for (let i = 0; i < 20; i++) {
        const r1 = rs[2 * texts.length + N + 2 * i]; const r2 = rs[2 * texts.length + N + 2 * i + 1]
        rep.evaluations++
        for (const r of [r1, r2]) {
          if (!r.ok) continue
          const used = new Set(); const re = /__datadog_([a-z]*)_\d+/g; let m
          while ((m = re.exec(r.ok.raw.code))) used.add(m[1])
          if (used.size !== 1 || !used.has(prefixes[i])) push('prefix-not-constant', `rewriter with prefix ${prefixes[i]} emitted temporaries with prefixes ${JSON.stringify(Array.from(used))}`)
        }
      }
      rep.distinct.push('defaults-a', 'defaults-b')
      rep.samples.push({ undeserialisable_configs: texts, default_prefix_examples: prefixes.slice(0, 5) })
      return rep
    }
    if (spec.kind === 'reprologue') {
      // pass 1 with a sub-configuration A (own prefix), pass 2 with the full configuration B (A's entries plus others, same replacement
      // names) on pass 1's OUTPUT - a file that opens with `if (typeof _ddiast === 'undefined') ...`; and user code that merely
      // opens with such a test. In both cases the prologue of pass 2 must define a pass-through for every name configured in B.
      const rng = new Rng(ctx.seed, 'c05re', spec.stream)
      const first = []; const meta = []
      for (let i = 0; i < spec.count; i++) {
        const r = rng.fork(i)
        let B = randomConfig(r)
        if (!B.csiMethods || B.csiMethods.length < 2) { B = Object.assign({}, B, { csiMethods: [{ src: 'plusOperator', operator: true }, { src: 'trim' }, { src: 'concat', dst: 'cc' }] }) }
        // first entry per source wins: de-duplicate so that A and B agree on every shared replacement name
        const seenSrc = new Set(); B.csiMethods = B.csiMethods.filter(e => e && !seenSrc.has(e.src) && seenSrc.add(e.src))
        const keep = B.csiMethods.filter((_, j) => j % 2 === 0)
        const A = Object.assign({}, B, { csiMethods: keep, localVarPrefix: 'pa' + i })
        const B2 = Object.assign({}, B, { localVarPrefix: 'pb' + i, chainSourceMap: false })
        const userCode = i % 4 === 3
        const code = mentionProgram(r, r.range(4, 10))
        meta.push({ A, B: B2, userCode, code })
        first.push({ code, file: '/srv/app/re.js', meta: { family: 'reprologue' }, config: A, cfgKey: 'A' + i })
      }
      const r1 = rewriteJobs(first)
      const second = []
      meta.forEach((m, i) => {
        const resp = r1.responses[i]
        if (m.userCode) second.push({ code: "if (typeof _ddiast === 'undefined') w.out('no tracer yet');\n" + m.code, file: '/srv/app/re.js', meta: { family: 'reprologue', variant: 'user-code-opens-with-the-test', index: i }, config: m.B, cfgKey: 'B' + i })
        else if (resp && resp.ok && resp.ok.metrics.status === 'modified') second.push({ code: resp.ok.content, file: '/srv/app/re.js', meta: { family: 'reprologue', variant: 'output-of-an-earlier-pass', index: i }, config: m.B, cfgKey: 'B' + i })
      })
      const r2 = rewriteJobs(second)
      for (let k = 0; k < second.length; k++) {
        const job = second[k]; const resp = r2.responses[k]
        const st = kind(resp)
        bump('reprologue:' + st)
        if (['abort', 'timeout', 'harness'].includes(st)) { rep.inconclusive.push({ reason: 'harness-' + st, detail: 'reprologue' }); continue }
        if (st !== 'ok-modified') continue
        rep.evaluations++
        rep.distinct.push(hashStr(job.code + JSON.stringify(job.config)))
        const dm = dstMap(job.config)
        const push = (kindS, what) => rep.violations.push({ sig: `reprologue:${job.meta.variant}:${kindS}`, what, witness: { code: job.code, config: job.config, meta: job.meta } })
        const b = await run(resp.ok.content, { hooks: 'none' })
        if (b.timedOut) { rep.inconclusive.push({ reason: 'exec-timeout', detail: 'reprologue' }); continue }
        let installed
        try { installed = vm.runInContext('typeof _ddiast === "object" && _ddiast !== null ? Object.keys(_ddiast) : null', b.ctx) } catch (e) { installed = null }
        bump('reprologue_executions')
        if (!installed) { push('prologue-no-object', 'after running the output of the second pass in a realm without _ddiast, no _ddiast object exists'); continue }
        const missing = Array.from(dm.all).filter(n => !installed.includes(n))
        if (missing.length) push('prologue-names', `the file opens with the prologue's own test (${job.meta.variant}); after running the second pass's output without hooks the names ${JSON.stringify(missing)} configured for that pass have no pass-through (defined: ${JSON.stringify(installed)})`)
        if (job.meta.variant === 'output-of-an-earlier-pass') {
          const a = await run(meta[job.meta.index].code, {})
          if (!a.timedOut && (a.completion !== b.completion || a.log.join('\n') !== b.log.join('\n'))) push('prologue-run-differs', `running the twice rewritten file without _ddiast differs from the original input: ${a.completion} vs ${b.completion}`)
        }
      }
      if (rep.samples.length < 1 && second.length) rep.samples.push({ reprologue_variant: second[0].meta.variant, second_pass_config: second[0].config, input_head: clip(second[0].code, 300) })
      return rep
    }
    const rng = new Rng(ctx.seed, 'c05', spec.stream)
    const js = []
    for (let i = 0; i < spec.count; i++) {
      const r = rng.fork(i)
      const config = randomConfig(r)
      let code = mentionProgram(r, r.range(4, 12))
      const withComments = r.bool(0.5)
      if (withComments) code = '/* c05-comment head */\n' + code.replace('let a =', '// c05-comment line\n  let a =')
      const hasInlineMap = r.bool(0.3)
      if (hasInlineMap) code += INLINE_MAP
      const meta = { family: 'cfg', stream: spec.stream, index: i, hasInlineMap }
      js.push({ code, file: '/srv/app/cfg.js', meta, config, cfgKey: 'k' + i })
      // neighbour: same program, sub-configuration (one entry removed) for the monotonicity cross-check
      if (config.csiMethods && config.csiMethods.length > 1) {
        const drop = r.int(config.csiMethods.length)
        const sub = Object.assign({}, config, { csiMethods: config.csiMethods.filter((_, j) => j !== drop) })
        js.push({ code, file: '/srv/app/cfg.js', meta: Object.assign({ neighbourOf: js.length - 1 }, meta), config: sub, cfgKey: 'k' + i + 'n' })
      }
    }
    const { responses, prefixes } = rewriteJobs(js)
    const results = []
    for (let i = 0; i < js.length; i++) {
      const exec = (i % (ctx.tier === 'thorough' ? 2 : 3)) === 0
      const { out, violations } = await check(js[i], responses[i], prefixes[i], { exec })
      results.push(out)
      bump('status:' + out.r.status)
      if (['abort', 'timeout', 'harness'].includes(out.r.status)) { rep.inconclusive.push({ reason: 'harness-' + out.r.status, detail: 'cfg' }); continue }
      if (out.r.status === 'panic') { rep.violations.push({ sig: 'cfg:panic', what: 'rewriter panicked: ' + JSON.stringify(responses[i].panic), witness: { code: js[i].code, config: js[i].config } }); continue }
      if (out.r.status !== 'ok-modified' && out.r.status !== 'ok-notmodified') { bump('other:' + clip(JSON.stringify(responses[i]), 80)); continue }
      rep.evaluations++
      rep.distinct.push(hashStr(js[i].code + JSON.stringify(js[i].config)))
      if (out.r.hookSites) for (const n of out.r.hookSites) rep.sets.hook_names_seen.push(n)
      if (out.unaligned) bump('unaligned')
      if (out.exec) { bump('prologue_executions'); bump('hook_calls_seen_by_preinstalled_object', out.exec.hookCalls || 0) }
      if (out.r.hooked) bump('hooked_nodes', out.r.hooked)
      if (rep.samples.length < 2 && out.r.hooked) rep.samples.push({ config: js[i].config, input: clip(js[i].code, 600), hook_sites: out.r.hookSites })
      for (const v of violations) rep.violations.push(v)
    }
    // monotonicity: hooked nodes under the sub-configuration == hooked nodes under the full one restricted to its operations
    for (let i = 0; i < js.length; i++) {
      const j = js[i].meta.neighbourOf
      if (j === undefined) continue
      const full = results[j]; const sub = results[i]
      if (!full || !sub || !full.r.aligned || !(sub.r.aligned || sub.r.status === 'ok-notmodified')) continue
      const collect = (res) => { const s = new Map(); if (res.r.a) P.pairs(res.r.a, res.r.b, (x, y) => { if (y.__hook) s.set(x.start + ':' + x.end + ':' + x.type, y.__hook.name) }); return s }
      const F = collect(full); const Sb = collect(sub)
      const dmS = dstMap(js[i].config)
      for (const [k2, name] of Sb) if (!F.has(k2)) rep.violations.push({ sig: 'cfg:monotonicity-extra', what: `node hooked (${name}) under a sub-configuration but not under the configuration containing it`, witness: { code: js[i].code, config: js[j].config, sub: js[i].config, node: k2 } })
      bump('monotonicity_pairs')
      void dmS
    }
    return rep
  },
  async replay (w) {
    const job = { code: w.code, meta: w.meta || {}, config: w.config, file: '/srv/app/cfg.js' }
    const { responses, prefixes } = rewriteJobs([Object.assign({ cfgKey: 'replay' }, job)])
    return { violations: (await check(job, responses[0], prefixes[0], { exec: true })).violations }
  }
}
