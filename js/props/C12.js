'use strict'
// C12 — unmodified files are reported as such and handed back byte for byte; status never disagrees with content.
const fs = require('fs')
const path = require('path')
const { plan: structPlan, jobs: structJobs } = require('../lib/structwork')
const { rewriteJobs, kind } = require('../lib/pipeline')
const { analyze } = require('../lib/structan')
const A = require('../lib/astmon')
const S = require('../lib/smap')
const { cfg } = require('../lib/configs')
const { SETS } = require('../lib/cfgset')
const { Rng, hashStr, clip, chunk } = require('../lib/util')
const { dstMap } = require('../lib/configs')
const G = require('../lib/gen_hostile')

// the package wrapper (main.js NonCacheRewriter.rewrite) applied to a native response: real file, real code path
function loadWrapper () {
  const Module = require('module')
  const src = fs.readFileSync('/repo/main.js', 'utf8')
  const m = new Module('/repo/main.js', null)
  m.filename = '/repo/main.js'
  m.paths = []
  const origLoad = Module._load
  let current = null
  Module._load = function (request, parent, isMain) {
    if (parent === m || (parent && parent.filename && parent.filename.startsWith('/repo/'))) {
      if (request === './wasm/wasm_iast_rewriter') return { Rewriter: class { constructor () {} rewrite (code, file) { return current(code, file) } csiMethods () { return [] } setLogger () {} } }
      if (request === 'lru-cache') return class { constructor () { this.m = new Map() } get (k) { return this.m.get(k) } set (k, v) { this.m.set(k, v) } }
    }
    return origLoad.apply(this, arguments)
  }
  try { m._compile(src, '/repo/main.js') } finally { Module._load = origLoad }
  return { exports: m.exports, setNative (f) { current = f } }
}

const NOOP_INPUTS = [
  ['empty', ''],
  ['whitespace', '  \n\t\n'],
  ['comment-only', '// just a comment\n/* block */\n'],
  ['hashbang', '#!/usr/bin/env node\nconsole.log(1)\n'],
  ['bom', '﻿function f() { return 1 }\n'],
  ['crlf', 'function f() {\r\n  return "a" + "b"\r\n}\r\n'],
  ['literal-sums', "function f() { const a = 'x' + 'y' + 1; let n = 1 + 2; n += 3; return `plain` }\n"],
  ['non-ascii', 'function f() { return "añ€𝒳" + "ü" }\n'],
  ['escaped-surrogate', 'function f() { return "\\ud83d" + "\\ude00" }\n'],
  ['top-level-only', "var a = b + c; var t = `${a}`; b.trim(); a += 1\n"],
  ['excluded-delete', 'function f(o, a, b) { delete o[a + b]; delete o[`${a}`]; delete o[a.trim()] }\n'],
  ['arrow-default', 'function f(a, b) { return (x = a + b) => x }\n'],
  ['arrow-expr-normalised', 'function f() { return (x) => x ? 1 : 2 }\nconst g = (y) => ({ y })\n'],
  ['optional-unconfigured', 'function f(a) { return a?.b?.c?.(1)?.d }\n'],
  ['tpl-literal-subst', 'function f(a, b) { return `${1}${a + b}${a.trim()}` }\n'],
  ['tagged-template-only', 'function f(t) { return t`a${1}b` }\n'],
  ['computed-and-optional-invocation', "function f(a) { return a['trim']() + 1 * 2 - a.trim?.().length }\n".replace('+ 1 * 2 -', '- 1 * 2 -')],
  ['lit-receiver-excluded', "function f() { return '  x '.trim().length - 'a'.substring(1).length }\n"],
  ['this-receiver', 'function f() { return this.trim() }\n'],
  ['prototype-receiver', 'function f(X) { return X.prototype.trim() }\n'],
  ['opt-prototype-receiver', 'function f(X) { return X?.prototype.trim() }\n'],
  ['use-strict-only', "'use strict'\nfunction f() { 'use strict'; return 1 }\n"],
  ['class-fields-top-level', 'class K { static s = 1; p = 2; #q = 3; m() { return this.#q } }\n'],
  // shapes of files that invite special treatment: one-line bundles of tens of kilobytes (with and without anything to instrument)
  ['minified-bundle-nothing-to-do', Array.from({ length: 1100 }, (_, i) => `var m${i}=function(a,b){return a*b-${i}};`).join('')],
  ['minified-bundle-with-operations', Array.from({ length: 1100 }, (_, i) => `var m${i}=function(a,b){return a+b.trim()};`).join('')],
  ['minified-two-long-lines', Array.from({ length: 700 }, (_, i) => `var n${i}=function(a){return a-${i}};`).join('') + '\n' + Array.from({ length: 700 }, (_, i) => `var o${i}=function(a){return a+"${i}"};`).join('')],
  ['large-unmodified', 'function big() {\n' + Array.from({ length: 4000 }, (_, i) => `  const v${i} = ${i} * 2 - 1;`).join('\n') + '\n  return 0\n}\n']
]

function noInstrumentableOp (ast, config) {
  // conservative: nothing that even looks like an enabled operation anywhere in the file
  const dm = dstMap(config)
  let found = false
  A.walk(ast, (n) => {
    if (dm.plus !== null && ((n.type === 'BinaryExpression' && n.operator === '+') || (n.type === 'AssignmentExpression' && n.operator === '+='))) found = true
    if (dm.tpl !== null && n.type === 'TemplateLiteral' && n.expressions.length) found = true
    if (n.type === 'CallExpression' || n.type === 'ChainExpression') {
      A.walk(n, (x) => { if (x.type === 'Identifier' && (dm.methods.has(x.name))) found = true })
    }
  })
  return !found
}

function check (job, resp, prefix, wrapper) {
  const violations = []
  const sigBase = job.meta.mapref ? `mapref:${job.meta.mapref.r}:${job.meta.mapref.entry}` : job.meta.noop ? `noop:${job.meta.noop}` : (job.meta.placement ? `catalog:${job.meta.placement}:${job.meta.form}` : job.meta.kind === 'corpus' ? 'corpus' : 'random')
  const push = (kind, what, extra) => violations.push({ sig: `${sigBase}:${kind}`, what, witness: Object.assign({ code: job.code, config: job.config, cfgName: job.cfgName, meta: job.meta, file: job.file, reader: job.reader }, extra || {}) })
  const k = kind(resp)
  const out = { k, hooks: 0 }
  if (k !== 'ok-modified' && k !== 'ok-notmodified') return { out, violations }
  const ok = resp.ok
  if (!ok.metrics) push('no-metrics', 'result without metrics/status')
  else if (ok.metrics.status !== 'modified' && ok.metrics.status !== 'notmodified') push('unknown-status', `the result is reported as ${JSON.stringify(ok.metrics.status)}: neither modified nor notmodified`)
  // package-level wrapper
  wrapper.setNative(() => JSON.parse(JSON.stringify({ content: ok.content, metrics: ok.metrics, literalsResult: ok.literalsResult })))
  const viaPkg = new wrapper.exports.NonCacheRewriter({}).rewrite(job.code, job.file || '/app/src/prog.js')
  if (k === 'ok-notmodified') {
    if (ok.content !== '') push('notmodified-content', `status notmodified but native content is non-empty (${ok.content.length} chars)`)
    if (ok.raw.code !== '' || ok.raw.map !== '') push('notmodified-code-or-map', 'status notmodified but rewritten code / source map were produced')
    if (viaPkg.content !== job.code || !Buffer.from(viaPkg.content, 'utf8').equals(Buffer.from(job.code, 'utf8'))) push('not-byte-identical', 'package API did not hand back the caller\'s text byte for byte')
    // prediction: at least one required operation => must be modified (C04 reports the detail)
    const r = analyze(job, resp, prefix)
    // canonical witnesses of recorded findings (C04 owns them: D19, D26) are not re-judged here
    if (r.required > 0 && !(r.requiredNodes[0].__req.applyNonLiteralList) && !job.meta.known && !job.meta.mapref) push('required-but-notmodified', `policy requires ${r.required} hook(s) but the file was reported not modified`)
    out.required = r.required
  } else {
    if (viaPkg.content !== ok.content) push('wrapper-altered-modified', 'package wrapper altered a modified result')
    const t = S.splitTrailer(ok.content)
    if (t.error) push('trailer', 'modified result without a valid inline source-map trailer: ' + t.error)
    else {
      const env = S.validateEnvelope(t.map)
      if (env.length) push('map-envelope', 'embedded map invalid: ' + env.join('; '))
      if (t.code !== ok.raw.code && !(job.config.comments)) push('content-vs-code', 'content is not code + trailer')
    }
    let b
    try { b = A.parse(ok.raw.code, { module: !!job.meta.module }) } catch (e) { try { b = A.parseAuto(ok.raw.code).ast } catch (e2) { b = null } }
    if (b) {
      const c = A.census(b)
      out.hooks = c.sites.length
      if (c.sites.length === 0) push('modified-without-hook', 'status modified but the output contains no hook call site')
      if (!b.body.some(A.isPrologueIf)) push('modified-without-prologue', 'status modified but the prologue is missing')
      // prediction: nothing instrumentable anywhere => must be notmodified
      let a
      try { a = A.parseAuto(job.code).ast } catch (e) { a = null }
      if (a && noInstrumentableOp(a, job.config)) push('modified-without-operation', 'input contains no enabled operation at all but was reported modified')
    } else out.unparsable = true
  }
  return { out, violations }
}

// One caching Rewriter (the package's default export) is asked about a few file names again and again, with texts that all
// have the same length (padded with a trailing comment): modified and unmodified ones mixed. Every answer is judged on its
// own: not modified => the caller's text of THIS call, byte for byte; modified => the engine's content for THIS text.
function runHistory (spec, ctx) {
  const rng = new Rng(ctx.seed, 'c12hist', spec.stream)
  const base = structJobs({ kind: 'random', count: 24, stream: 1200 + spec.stream, cfgNames: ['FULL'] }, ctx).map(j => j.code)
  const plain = NOOP_INPUTS.filter(x => !['empty', 'large-unmodified', 'hashbang', 'bom'].includes(x[0]) && !/^minified-/.test(x[0])).map(x => x[1])
  const variants = plain.concat(plain.map(t => t.replace(/[a-z]/, c => c.toUpperCase())), plain.map(t => t.replace(/return/, 'return ')), base)
  const L = Math.max(...variants.map(t => t.length)) + 8
  const texts = variants.map(t => { const body = t.replace(/\n*$/, '\n'); return body + '//' + 'p'.repeat(L - body.length - 2) })
  const files = ['/srv/c12h/a.js', '/srv/c12h/b.js', '/srv/c12h/deep/a.js']
  const calls = []
  for (let i = 0; i < 120; i++) calls.push({ code: rng.pick(texts), file: rng.pick(files) })
  const { responses } = rewriteJobs(calls.map(c => ({ code: c.code, file: c.file, config: SETS.FULL, cfgKey: 'FULL' })))
  const wrapper = loadWrapper()
  const rep = { evaluations: 0, distinct: [], violations: [], inconclusive: [], samples: [], counters: {}, sets: {} }
  const bump = (k, n = 1) => { rep.counters[k] = (rep.counters[k] || 0) + n }
  let current = null
  wrapper.setNative(() => current)
  const rw = new wrapper.exports.Rewriter({})
  const hist = []
  calls.forEach((c, i) => {
    const k = kind(responses[i])
    if (k !== 'ok-modified' && k !== 'ok-notmodified') { if (['abort', 'timeout', 'harness'].includes(k)) rep.inconclusive.push({ reason: 'harness-' + k, detail: 'history' }); return }
    const ok = responses[i].ok
    current = JSON.parse(JSON.stringify({ content: ok.content, metrics: ok.metrics, literalsResult: ok.literalsResult }))
    let got
    try { got = rw.rewrite(c.code, c.file) } catch (e) { rep.violations.push({ sig: 'history:wrapper-threw', what: 'the caching Rewriter threw: ' + e.message, witness: { history: hist.slice(-6) } }); return }
    hist.push(`${c.file.split('/').pop()}:${k}:${hashStr(c.code).slice(0, 6)}`)
    rep.evaluations++
    rep.distinct.push(hashStr(i + c.code + c.file))
    bump('history_calls'); bump('history:' + k)
    const status = got && got.metrics && got.metrics.status
    const expectContent = k === 'ok-notmodified' ? c.code : ok.content
    if (status !== ok.metrics.status) rep.violations.push({ sig: 'history:status-of-another-call', what: `call #${i} (${k}) on the caching Rewriter came back with status ${status}; engine said ${ok.metrics.status} (last calls: ${hist.slice(-5).join(', ')})`, witness: { history: hist.slice(-8) } })
    else if (got.content !== expectContent) rep.violations.push({ sig: `history:content-of-another-call:${k}`, what: `call #${i} (${k}) on the caching Rewriter did not return ${k === 'ok-notmodified' ? "the caller's text of this call" : 'the content the engine produced for this text'} (same file name asked before with another text of the same length; last calls: ${hist.slice(-5).join(', ')})`, witness: { history: hist.slice(-8) } })
  })
  return rep
}

const EMPTY_CFGS = { NO_METHODS: cfg({ plus: false, tpl: false, methods: [] }), OMITTED_METHODS: { localVarPrefix: 'test' } }

module.exports = {
  id: 'C12',
  level: 'exploration',
  rule: 'status/content consistency monitor on every response: notmodified => empty native content/code/map and the real main.js wrapper returns the input byte for byte; modified => >= 1 hook call site (census), prologue present, exactly one decodable trailer; status vs policy prediction in the two unambiguous directions. Workload: 24 hand-picked unmodified-looking inputs (literal sums, excluded positions, normalised arrows/optional chains, BOM/CRLF/hashbang/non-ASCII/empty/large) x all configurations, corpus/catalogue/random programs under instrumenting and non-instrumenting configurations (corpus slice also with CRLF line endings), and modified / unmodified programs carrying a sourceMappingURL reference of every kind and reader outcome (usable, broken, unreadable, oversized, hostile text) x chaining on/off x comments on/off. distinct_nontrivial = distinct (input, config) pairs decided. Workload additions: corpus files with enabled operations spliced onto randomly chosen expression nodes (25 wrappers x every expression slot; only texts V8 still compiles), the syntax zoo with LF/CRLF/CR line endings, a CRLF slice of the corpus. A fifth of the generated/corpus calls is made with hostile file arguments (no base name, no directory, `..`, blanks, backslashes, non-ASCII, 5000 characters, query/hash, trailing slash): the contract does not depend on the name.',
  assumptions: ['the package wrapper is exercised through the real /repo/main.js with the native module replaced by a shim returning the harness response'],
  plan (ctx) {
    const shards = [{ kind: 'noop' }]
    for (const s of structPlan(ctx, { quickCorpus: 300, cfgNames: Object.keys(SETS), exec: { quickRandom: 1500, quickFormsPerPlacement: 8 } })) shards.push(s)
    for (const s of structPlan(ctx, { quickCorpus: 150, generated: true, exec: { quickRandom: 600, quickFormsPerPlacement: 3, includeKnown: false } })) shards.push(Object.assign({ emptyCfg: true }, s))
    // call histories on ONE caching Rewriter: the same file name asked again with other texts of the same length
    for (let k = 0; k < (ctx.tier === 'thorough' ? 40 : 4); k++) shards.push({ kind: 'history', stream: k })
    // the same consistency under source-map references of every kind (usable, broken, unreadable...) x chaining x comments
    for (let k = 0; k < (ctx.tier === 'thorough' ? 60 : 6); k++) shards.push({ kind: 'mapref', stream: k, count: 120 })
    return shards
  },
  minEvaluations () { return 300 },
  async runShard (spec, ctx) {
    let js
    if (spec.kind === 'noop') {
      js = []
      const all = Object.assign({}, SETS, EMPTY_CFGS)
      for (const [name, code] of NOOP_INPUTS) for (const [cn, c] of Object.entries(all)) js.push({ code, file: '/srv/noop/' + name + '.js', meta: { noop: name, sigBase: 'noop:' + name }, config: c, cfgKey: cn, cfgName: cn })
    } else if (spec.kind === 'history') {
      return runHistory(spec, ctx)
    } else if (spec.kind === 'mapref') {
      const rng = new Rng(ctx.seed, 'c12mapref', spec.stream)
      const base = structJobs({ kind: 'random', count: 40, stream: 900 + spec.stream, cfgNames: ['FULL'] }, ctx)
      js = []
      for (let i = 0; i < spec.count; i++) {
        const r = rng.fork(i)
        const noop = r.bool(0.25) ? r.pick(NOOP_INPUTS.filter(x => !['empty', 'large-unmodified'].includes(x[0]) && !/^minified-/.test(x[0]))) : null
        const b = noop ? { code: noop[1], meta: { noop: noop[0] } } : r.pick(base)
        const file = r.pick(['/srv/app/dist/gen.js', '/srv/app/x.js', 'x.js', '/x.js'])
        const ref = G.mapReference(r, file)
        const chain = r.bool(0.7); const comments = r.bool(0.4)
        const cn = `mapref:c${+chain}${+comments}`
        js.push({ code: b.code.replace(/\n*$/, '\n') + ref.comment.replace(/^\n/, ''), file, reader: ref.reader, meta: Object.assign({}, b.meta, { sigBase: 'mapref', mapref: ref.kind, known: false }), config: Object.assign({}, SETS.FULL, { chainSourceMap: chain, comments }), cfgKey: cn, cfgName: cn })
      }
    } else {
      js = structJobs(spec, ctx)
      // the status/content contract holds for ANY file argument: a share of the calls is made with file names without a base
      // name, without a directory, with odd characters, very long... (the names C13 uses)
      { const frng = new Rng(ctx.seed, 'c12files', spec.stream || 0); js = js.map((j, i) => i % 5 === 2 ? Object.assign({}, j, { file: frng.pick(G.FILE_NAMES), meta: Object.assign({}, j.meta, { hostileFileName: true }) }) : j) }
      if (spec.emptyCfg) js = js.map((j, i) => { const cn = i % 2 ? 'NO_METHODS' : 'OMITTED_METHODS'; return Object.assign({}, j, { config: EMPTY_CFGS[cn], cfgKey: cn, cfgName: cn, meta: Object.assign({}, j.meta, { emptyCfg: true }) }) })
    }
    const { responses, prefixes } = rewriteJobs(js)
    const wrapper = loadWrapper()
    const rep = { evaluations: 0, distinct: [], violations: [], inconclusive: [], samples: [], counters: {}, sets: {} }
    const bump = (k, n = 1) => { rep.counters[k] = (rep.counters[k] || 0) + n }
    for (let i = 0; i < js.length; i++) {
      const { out, violations } = check(js[i], responses[i], prefixes[i], wrapper)
      bump('status:' + out.k)
      if (['abort', 'timeout', 'harness'].includes(out.k)) { rep.inconclusive.push({ reason: 'harness-' + out.k, detail: js[i].meta.sigBase }); continue }
      if (out.k !== 'ok-modified' && out.k !== 'ok-notmodified') continue
      if (js[i].meta.emptyCfg && out.k === 'ok-modified') violations.push({ sig: 'empty-method-list-modified', what: 'configuration without methods reported a file as modified', witness: { code: js[i].code, config: js[i].config, meta: js[i].meta } })
      rep.evaluations++
      rep.distinct.push(hashStr(js[i].code + '|' + js[i].cfgName))
      bump('hook_sites_in_modified', out.hooks)
      if (rep.samples.length < 3 && js[i].code.length < 300) rep.samples.push({ input: js[i].code, config: js[i].cfgName, status: out.k, hook_sites: out.hooks })
      for (const v of violations) rep.violations.push(v)
    }
    return rep
  },
  async replay (w, ctx) {
    if (w.history) { const r = runHistory({ stream: 0 }, ctx || { seed: 1, id: 'C12', tier: 'quick' }); return { violations: r.violations } }
    const job = { code: w.code, meta: w.meta, config: w.config, cfgName: w.cfgName, file: w.file, reader: w.reader }
    const { responses, prefixes } = rewriteJobs([Object.assign({ cfgKey: 'replay' }, job)])
    return { violations: check(job, responses[0], prefixes[0], loadWrapper()).violations }
  },
  check,
  loadWrapper
}
