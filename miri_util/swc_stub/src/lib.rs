pub mod sourcemap {
    pub struct SourceMap;
    impl SourceMap {
        pub fn from_reader<R: std::io::Read>(_r: R) -> Result<SourceMap, ()> {
            Err(())
        }
    }
}
