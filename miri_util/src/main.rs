#![allow(dead_code)]
#[path = "/repo/src/util.rs"]
mod util;

fn main() {
    let n: usize = std::env::args().nth(1).and_then(|s| s.parse().ok()).unwrap_or(2000);
    let mut seen = [false; 26];
    let mut distinct = std::collections::HashSet::new();
    for i in 0..n {
        let len = if i % 50 == 0 { i % 40 } else { 6 };
        let s = util::rnd_string(len);
        assert_eq!(s.len(), len, "rnd_string length");
        for c in s.chars() {
            assert!(c.is_ascii_lowercase(), "rnd_string produced {c:?}");
            seen[(c as u8 - b'a') as usize] = true;
        }
        if len == 6 {
            distinct.insert(s);
        }
    }
    let names = ["", "/", ".", "..", "x.js", "/a/b/c.js", "dir/", "/dir/sub/", "a\\b.js", "/app/ñ/файл.js", "/app/😀.mjs", " ", "//x.js", "/a/b/../c.js", "/a/b/.."];
    for name in names {
        let base = util::file_name(name);
        if let Some(b) = base {
            assert!(!b.contains('/'), "file_name({name:?}) = {b:?}");
            assert!(name.contains(b));
        }
        println!("file_name({name:?}) = {base:?}");
    }
    assert!(util::parse_source_map(Some("{}")).is_none());
    println!("rnd_string: {n} calls, {} distinct 6-letter prefixes, letters seen: {}", distinct.len(), seen.iter().filter(|x| **x).count());
}
