//! rwharness: newline-delimited JSON request/response server around the real rewriter
//! (`/repo/src`, compiled as this package's lib target with the verification cfg on).
//!
//! Requests (one JSON object per line on stdin), responses one line each on stdout:
//!   {"op":"new","rw":"r1","config":<json value>}            -> {"ok":{"csi":[..],"dump":"Config {..}"}}
//!   {"op":"new","rw":"r1","config_text":"<json text>"}      (text that may fail to deserialise)
//!   {"op":"set_logger","level":"DEBUG"}                      -> installs the sink logger, sets the global maximum level
//!   {"op":"rewrite","rw":"r1","code":..,"file":..,"reader":{..}} -> {"ok":{content,metrics,literalsResult,raw}} | {"err":..} | {"panic":{..}}
//!   {"op":"rnd","n":6,"count":1000}                         -> {"ok":{"strings":[..]}}
//!   {"op":"file_name","file":".."}                          -> {"ok":{"name":..}}
use native_iast_rewriter::verif_hooks as rw;
use serde_json::{json, Map, Value};
use std::cell::RefCell;
use std::collections::HashMap;
use std::io::{self, BufRead, Cursor, Read, Write};
use std::panic::{catch_unwind, AssertUnwindSafe};
use std::path::{Path, PathBuf};

thread_local! {
    static LAST_PANIC: RefCell<Option<(String, String)>> = const { RefCell::new(None) };
}

enum Entry {
    Content(Vec<u8>),
    Err(io::ErrorKind, String),
    FailAfter(Vec<u8>, usize),
    Sized(usize),
}

struct Vfs {
    files: HashMap<String, Entry>,
    parent_mode: String,
    reads: RefCell<Vec<String>>,
}

enum VRead {
    Bytes(Cursor<Vec<u8>>),
    FailAfter { data: Vec<u8>, pos: usize, k: usize },
    Gen { emitted: usize, total: usize },
}

const GEN_HEAD: &[u8] = b"{\"version\":3,\"sources\":[\"big.ts\"],\"names\":[],\"mappings\":\"AAAA";
const GEN_UNIT: &[u8] = b";AACA";
const GEN_TAIL: &[u8] = b"\"}";

fn gen_byte(i: usize, total: usize) -> u8 {
    // head, then units, then tail; total >= head+tail
    if i < GEN_HEAD.len() {
        GEN_HEAD[i]
    } else if i >= total - GEN_TAIL.len() {
        GEN_TAIL[i - (total - GEN_TAIL.len())]
    } else {
        let body_len = total - GEN_HEAD.len() - GEN_TAIL.len();
        let j = i - GEN_HEAD.len();
        let full = body_len / GEN_UNIT.len() * GEN_UNIT.len();
        if j < full {
            GEN_UNIT[j % GEN_UNIT.len()]
        } else {
            // pad with ';' (empty lines)
            b';'
        }
    }
}

impl Read for VRead {
    fn read(&mut self, buf: &mut [u8]) -> io::Result<usize> {
        match self {
            VRead::Bytes(c) => c.read(buf),
            VRead::FailAfter { data, pos, k } => {
                if *pos >= *k {
                    return Err(io::Error::new(io::ErrorKind::Other, "injected mid-read failure"));
                }
                let end = (*k).min(data.len());
                let n = buf.len().min(end - *pos);
                if n == 0 {
                    return Err(io::Error::new(io::ErrorKind::Other, "injected mid-read failure"));
                }
                buf[..n].copy_from_slice(&data[*pos..*pos + n]);
                *pos += n;
                Ok(n)
            }
            VRead::Gen { emitted, total } => {
                let n = buf.len().min(*total - *emitted);
                for (o, b) in buf.iter_mut().enumerate().take(n) {
                    *b = gen_byte(*emitted + o, *total);
                }
                *emitted += n;
                Ok(n)
            }
        }
    }
}

fn node_dirname(path: &str) -> String {
    // node's path.posix.dirname
    let b = path.as_bytes();
    if b.is_empty() {
        return ".".into();
    }
    let has_root = b[0] == b'/';
    let mut end: isize = -1;
    let mut matched_slash = true;
    let mut i = b.len() as isize - 1;
    while i >= 1 {
        if b[i as usize] == b'/' {
            if !matched_slash {
                end = i;
                break;
            }
        } else {
            matched_slash = false;
        }
        i -= 1;
    }
    if end == -1 {
        return if has_root { "/".into() } else { ".".into() };
    }
    if has_root && end == 1 {
        return "//".into();
    }
    String::from_utf8_lossy(&b[..end as usize]).into_owned()
}

impl rw::FileReader<VRead> for Vfs {
    fn read(&self, path: &Path) -> io::Result<VRead> {
        let key = path.to_string_lossy().into_owned();
        self.reads.borrow_mut().push(key.clone());
        match self.files.get(&key) {
            Some(Entry::Content(c)) => Ok(VRead::Bytes(Cursor::new(c.clone()))),
            Some(Entry::Err(kind, msg)) => Err(io::Error::new(*kind, msg.clone())),
            Some(Entry::FailAfter(c, k)) => Ok(VRead::FailAfter { data: c.clone(), pos: 0, k: *k }),
            Some(Entry::Sized(n)) => Ok(VRead::Gen { emitted: 0, total: (*n).max(GEN_HEAD.len() + GEN_TAIL.len()) }),
            None => Err(io::Error::new(io::ErrorKind::NotFound, format!("ENOENT: no such file or directory, open '{key}'"))),
        }
    }

    fn parent(&self, path: &Path) -> Option<PathBuf> {
        match self.parent_mode.as_str() {
            "none" => None,
            "std" => path.parent().map(PathBuf::from),
            _ => path.to_str().map(|p| PathBuf::from(node_dirname(p))),
        }
    }
}

fn b64decode(s: &str) -> Vec<u8> {
    use base64::{engine::general_purpose::STANDARD, Engine as _};
    STANDARD.decode(s).unwrap_or_default()
}

fn parse_kind(s: &str) -> io::ErrorKind {
    match s {
        "NotFound" => io::ErrorKind::NotFound,
        "PermissionDenied" => io::ErrorKind::PermissionDenied,
        "IsADirectory" => io::ErrorKind::Other, // EISDIR surfaces as Other from the wasm reader
        "InvalidData" => io::ErrorKind::InvalidData,
        "Interrupted" => io::ErrorKind::Interrupted,
        "UnexpectedEof" => io::ErrorKind::UnexpectedEof,
        _ => io::ErrorKind::Other,
    }
}

fn build_vfs(reader: Option<&Value>) -> Vfs {
    let mut files = HashMap::new();
    let mut parent_mode = "node".to_string();
    if let Some(Value::Object(r)) = reader {
        if let Some(Value::String(p)) = r.get("parent") {
            parent_mode = p.clone();
        }
        if let Some(Value::Object(fs)) = r.get("files") {
            for (path, spec) in fs {
                let entry = if let Some(c) = spec.get("content").and_then(|v| v.as_str()) {
                    if let Some(k) = spec.get("fail_after").and_then(|v| v.as_u64()) {
                        Entry::FailAfter(c.as_bytes().to_vec(), k as usize)
                    } else {
                        Entry::Content(c.as_bytes().to_vec())
                    }
                } else if let Some(c) = spec.get("b64").and_then(|v| v.as_str()) {
                    Entry::Content(b64decode(c))
                } else if let Some(e) = spec.get("err").and_then(|v| v.as_str()) {
                    Entry::Err(parse_kind(e), format!("injected {e}"))
                } else if let Some(n) = spec.get("size").and_then(|v| v.as_u64()) {
                    Entry::Sized(n as usize)
                } else {
                    Entry::Err(io::ErrorKind::Other, "bad spec".into())
                };
                files.insert(path.clone(), entry);
            }
        }
    }
    Vfs { files, parent_mode, reads: RefCell::new(vec![]) }
}

struct SinkLogger;
impl log::Log for SinkLogger {
    fn enabled(&self, _m: &log::Metadata) -> bool {
        true
    }
    fn log(&self, record: &log::Record) {
        // format (this is what evaluates the arguments) and discard
        let s = format!("{}", record.args());
        std::hint::black_box(s.len());
    }
    fn flush(&self) {}
}

fn handle(req: &Value, rewriters: &mut HashMap<String, rw::Config>) -> Value {
    let op = req.get("op").and_then(|v| v.as_str()).unwrap_or("");
    match op {
        "new" => {
            let id = req.get("rw").and_then(|v| v.as_str()).unwrap_or("r0").to_string();
            let config = if let Some(text) = req.get("config_text").and_then(|v| v.as_str()) {
                let mut de = serde_json::Deserializer::from_str(text);
                rw::config_from(&mut de)
            } else {
                let v = req.get("config").cloned().unwrap_or(Value::Null);
                rw::config_from(v)
            };
            let csi = rw::csi_methods(&config);
            let dump = format!("{config:?}");
            let prefix = config.local_var_prefix.clone();
            let n_prologue = config.file_prefix_code.len();
            rewriters.insert(id, config);
            json!({"ok": {"csi": csi, "dump": dump, "prefix": prefix, "prologue_stmts": n_prologue}})
        }
        // what Rewriter.setLogger(logger, level) does to the process: one logger, one global maximum level
        "set_logger" => {
            let level = match req.get("level").and_then(|v| v.as_str()).unwrap_or("ERROR").to_uppercase().as_str() {
                "OFF" => log::LevelFilter::Off,
                "ERROR" => log::LevelFilter::Error,
                "WARN" => log::LevelFilter::Warn,
                "INFO" => log::LevelFilter::Info,
                "TRACE" => log::LevelFilter::Trace,
                _ => log::LevelFilter::Debug,
            };
            let _ = log::set_boxed_logger(Box::new(SinkLogger));
            log::set_max_level(level);
            json!({"ok": {"level": format!("{level:?}")}})
        }
        "rewrite" => {
            let id = req.get("rw").and_then(|v| v.as_str()).unwrap_or("r0");
            let Some(config) = rewriters.get(id) else {
                return json!({"harness_error": format!("unknown rewriter {id}")});
            };
            let code = req.get("code").and_then(|v| v.as_str()).unwrap_or("").to_string();
            let file = req.get("file").and_then(|v| v.as_str()).unwrap_or("").to_string();
            let vfs = build_vfs(req.get("reader"));
            LAST_PANIC.with(|p| *p.borrow_mut() = None);
            let result = catch_unwind(AssertUnwindSafe(|| rw::rewrite(config, code, file, &vfs)));
            let reads = vfs.reads.borrow().clone();
            match result {
                Ok(Ok((res, raw))) => {
                    let mut v = serde_json::to_value(&res).unwrap_or(Value::Null);
                    if let Value::Object(m) = &mut v {
                        let mut r = Map::new();
                        r.insert("code".into(), Value::String(raw.code));
                        r.insert("map".into(), Value::String(raw.source_map));
                        r.insert("hasOriginalMap".into(), Value::Bool(raw.has_original_source_map));
                        r.insert("comment".into(), raw.source_map_comment.map(Value::String).unwrap_or(Value::Null));
                        r.insert("status".into(), raw.status.map(Value::String).unwrap_or(Value::Null));
                        r.insert("reads".into(), json!(reads));
                        m.insert("raw".into(), Value::Object(r));
                    }
                    json!({"ok": v})
                }
                Ok(Err(e)) => json!({"err": e, "reads": reads}),
                Err(payload) => {
                    let msg = if let Some(s) = payload.downcast_ref::<&str>() {
                        s.to_string()
                    } else if let Some(s) = payload.downcast_ref::<String>() {
                        s.clone()
                    } else {
                        "non-string panic payload".to_string()
                    };
                    let loc = LAST_PANIC.with(|p| p.borrow().clone());
                    json!({"panic": {"message": msg, "location": loc.map(|l| l.1)}})
                }
            }
        }
        "rnd" => {
            let n = req.get("n").and_then(|v| v.as_u64()).unwrap_or(6) as usize;
            let count = req.get("count").and_then(|v| v.as_u64()).unwrap_or(1) as usize;
            let strings: Vec<String> = (0..count).map(|_| rw::rnd_string(n)).collect();
            json!({"ok": {"strings": strings}})
        }
        "file_name" => {
            let file = req.get("file").and_then(|v| v.as_str()).unwrap_or("");
            json!({"ok": {"name": rw::file_name(file)}})
        }
        "ping" => json!({"ok": "pong"}),
        _ => json!({"harness_error": format!("unknown op {op}")}),
    }
}

fn main() {
    std::panic::set_hook(Box::new(|info| {
        let loc = info.location().map(|l| format!("{}:{}:{}", l.file(), l.line(), l.column())).unwrap_or_default();
        let msg = if let Some(s) = info.payload().downcast_ref::<&str>() {
            s.to_string()
        } else if let Some(s) = info.payload().downcast_ref::<String>() {
            s.clone()
        } else {
            String::new()
        };
        LAST_PANIC.with(|p| *p.borrow_mut() = Some((msg, loc)));
    }));
    if std::env::var("RWH_LOG").map(|v| v == "1").unwrap_or(false) {
        let _ = log::set_boxed_logger(Box::new(SinkLogger));
        log::set_max_level(log::LevelFilter::Debug);
    }
    let stdin = io::stdin();
    let stdout = io::stdout();
    let mut out = stdout.lock();
    let mut rewriters: HashMap<String, rw::Config> = HashMap::new();
    for line in stdin.lock().lines() {
        let Ok(line) = line else { break };
        if line.trim().is_empty() {
            continue;
        }
        let resp = match serde_json::from_str::<Value>(&line) {
            Ok(req) => {
                let mut r = handle(&req, &mut rewriters);
                if let (Some(id), Value::Object(m)) = (req.get("id"), &mut r) {
                    m.insert("id".into(), id.clone());
                }
                r
            }
            Err(e) => json!({"harness_error": format!("bad request json: {e}")}),
        };
        let _ = writeln!(out, "{}", resp);
        let _ = out.flush();
    }
}
