#!/bin/bash
# Confirms a seeded change in a scratch worktree: (1) with patch only: builds and the 98 baseline tests pass;
# (2) demo passes WITHOUT the patch; (3) demo fails WITH the patch.
#   tools/verify_seed.sh <dir with patch.diff [demo.diff] [demo.js]> "<demo command run in the worktree>"
set -u
DIR=$(realpath "$1"); DEMO_CMD="$2"
WT=${VERIFY_WT:-/tmp/wt/verify}
git -C /repo worktree remove --force $WT 2>/dev/null
git -C /repo worktree add -q --detach $WT HEAD || exit 2
cd $WT
export CARGO_NET_OFFLINE=true CARGO_TARGET_DIR=${WT}_target
res() { echo "$1"; }
git apply --whitespace=nowarn "$DIR/patch.diff" || { res "RESULT patch-does-not-apply"; exit 2; }
T=$(cargo test --workspace --no-fail-fast --offline 2>&1 | grep -E "^test result" | head -1)
echo "baseline-with-patch: $T"
BASE_OK=0; echo "$T" | grep -q "ok. 98 passed" && BASE_OK=1
git checkout -q -- . ; git clean -fdq
[ -f "$DIR/demo.diff" ] && { git apply --whitespace=nowarn "$DIR/demo.diff" || { res "RESULT demo-does-not-apply"; exit 2; }; }
mkdir -p _out && cp -r "$DIR"/* _out/ 2>/dev/null
[ -f "$DIR/demo.js" ] && cp "$DIR/demo.js" ./_demo.js
for f in "$DIR"/demo_*.js "$DIR"/*.mjs; do [ -f "$f" ] && cp "$f" . ; done
bash -c "$DEMO_CMD" > ${WT}_without.log 2>&1; W=$?
git apply --whitespace=nowarn "$DIR/patch.diff"
bash -c "$DEMO_CMD" > ${WT}_with.log 2>&1; P=$?
echo "demo without patch: exit $W ; with patch: exit $P"
if [ $BASE_OK = 1 ] && [ $W = 0 ] && [ $P != 0 ]; then res "RESULT confirmed"; else res "RESULT NOT-confirmed (baseline_ok=$BASE_OK without=$W with=$P)"; tail -5 ${WT}_without.log; tail -5 ${WT}_with.log; fi
cd /; git -C /repo worktree remove --force $WT
