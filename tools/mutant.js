#!/usr/bin/env node
'use strict'
// Applies a patch to /repo, confirms it compiles and (optionally) passes the 98 baseline tests with the guard off,
// runs the given checks (quick tier by default) and restores /repo. Prints which checks fired.
//   node tools/mutant.js <patch.diff> [--checks C01,C04|all] [--tier quick] [--skip-tests] [--seed N]
const { spawnSync, execSync } = require('child_process')
const fs = require('fs')
const path = require('path')
const args = process.argv.slice(2)
const patch = path.resolve(args[0])
const opt = (n, d) => { const i = args.indexOf(n); return i >= 0 ? args[i + 1] : d }
const ALL = 'C01 C02 C03 C04 C05 C06 C07 C08 C09 C10 C11 C12 C13 C14 C15 C16'.split(' ')
const checks = opt('--checks', 'all') === 'all' ? ALL : opt('--checks').split(',')
const tier = opt('--tier', 'quick')
const seed = opt('--seed', '1')
const sh = (c, o) => spawnSync('bash', ['-c', c], Object.assign({ encoding: 'utf8', maxBuffer: 1 << 28 }, o || {}))
if (sh('git -C /repo status --porcelain').stdout.trim()) { console.error('/repo is not clean'); process.exit(2) }
const restore = () => { sh('git -C /repo checkout -- . && git -C /repo clean -fdq -- src js main.js') }
const out = { patch, applied: false, compiles: null, tests: null, fired: [], silent: [], details: {} }
// the checks rewrite evidence/<id>.json on every run: keep what the unchanged tree produced
const evBackup = '/verif/tmp/evidence.backup.' + process.pid
sh(`mkdir -p /verif/tmp && rm -rf ${evBackup} && cp -r /verif/evidence ${evBackup}`)
try {
  const ap = sh(`git -C /repo apply --whitespace=nowarn ${JSON.stringify(patch)}`)
  if (ap.status !== 0) { console.error('patch does not apply: ' + ap.stderr); process.exit(2) }
  out.applied = true
  if (!args.includes('--skip-tests')) {
    const t = sh('cd /repo && cargo test --workspace --no-fail-fast --offline 2>&1 | tail -5')
    out.tests = /test result: ok\. 98 passed/.test(t.stdout) ? 'pass' : 'FAIL: ' + t.stdout.slice(-300)
  }
  const b = sh('cd /verif && node -e "const r=require(\'./js/lib/rw\').build(\'release\'); if(!r.ok){console.error(r.log.slice(-1500));process.exit(1)}"')
  out.compiles = b.status === 0
  if (!out.compiles) { out.buildLog = b.stderr.slice(-1500) } else {
    for (const id of checks) {
      const t0 = Date.now()
      const r = sh(`cd /verif && VERIF_SEED=${seed} ./check ${id} --tier ${tier} --no-build`, { env: Object.assign({}, process.env, { VERIF_SEED: seed }) })
      const lines = r.stdout.split('\n')
      const viol = lines.filter(l => /^\s+violation sig=/.test(l)).map(l => l.trim().slice(0, 260))
      const rec = { exit: r.status, secs: (Date.now() - t0) / 1000, violations: viol.slice(0, 4), nViolationLines: lines.filter(l => /^VIOLATION /.test(l)).length, last: lines.filter(Boolean).slice(-1)[0] }
      out.details[id] = rec
      if (r.status === 1) out.fired.push(id); else out.silent.push(id + (r.status === 0 ? '' : `(exit ${r.status})`))
    }
  }
} finally {
  restore()
  sh(`cp -r ${evBackup}/. /verif/evidence/ && rm -rf ${evBackup}`)
  // leave the harness binary built from the restored tree
  sh('cd /verif && node -e "require(\'./js/lib/rw\').build(\'release\')"')
}
console.log(JSON.stringify(out, null, 1))
