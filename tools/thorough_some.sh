#!/bin/bash
# vp run --with-repo -- bash tools/thorough_some.sh <seed> <jobs> <ID>...   (thorough tier of the given checks in a snapshot)
SEED=${1:-1}; JOBS=${2:-8}; shift 2
if [ -n "$VP_RUN_REPO" ]; then
  grep -rl "/repo" harness/Cargo.toml js tools/*.js miri_util/src/main.rs 2>/dev/null | xargs sed -i "s#/repo/#$VP_RUN_REPO/#g; s#'/repo'#'$VP_RUN_REPO'#g"
fi
bash ./setup.sh || exit 2
for id in "$@"; do
  echo "=== $id thorough seed $SEED"
  NB=--no-build; [ $id = C13 ] && NB=
  VERIF_SEED=$SEED ./check $id --tier thorough --jobs $JOBS $NB 2>&1 | grep -v "^KNOWN" | tail -8 | cut -c1-700
done
