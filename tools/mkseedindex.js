'use strict'
// Writes seeded/INDEX.md and selftest/own/INDEX.md from the meta/result files.
const fs = require('fs'), path = require('path')
const V = path.join(__dirname, '..')
let md = '# Seeded changes kept for monitor validation\n\nEach directory holds `patch.diff` (the change to /repo), the demonstration (`demo.diff` / `demo.js`), the author\'s `README.md` and `meta.json`. All were produced by fresh sub-agents that saw only the property text and a scratch worktree, and were confirmed by `tools/verify_seed.sh` (98 baseline tests pass with the change; the demonstration passes without it and fails with it). `fired` = checks whose quick tier (seed 1) exits 1 with the change applied to /repo (`tools/mutant.js`).\n\n| change | breaks | needs, in short | quick checks that fire | note |\n|---|---|---|---|---|\n'
for (const d of fs.readdirSync(path.join(V, 'seeded')).sort()) {
  const mp = path.join(V, 'seeded', d, 'meta.json')
  if (!fs.existsSync(mp)) continue
  const m = JSON.parse(fs.readFileSync(mp, 'utf8'))
  let needs = m.needs_to_manifest
  if (!needs || needs === 'see README.md') {
    try { const r = fs.readFileSync(path.join(V, 'seeded', d, 'README.md'), 'utf8'); const t = /(?:trigger|manifest)[^\n]*\n+([\s\S]{0,400})/i.exec(r); needs = t ? t[1].replace(/\s+/g, ' ').slice(0, 220) : 'see README.md' } catch (e) {}
  }
  md += `| ${d} | ${m.breaks_property} | ${String(needs).replace(/\|/g, '\\|')} | ${m.checks_quick_seed1 ? m.checks_quick_seed1.fired.join(', ') || '—' : 'not run'} | ${m.notes ? m.notes.replace(/\|/g, '\\|') : 'caught as first built'} |\n`
}
fs.writeFileSync(path.join(V, 'seeded', 'INDEX.md'), md)
// compact version inside DESIGN.md (between the markers): which checks catch which change
{
  const rows = []
  const rounds = {}
  for (const d of fs.readdirSync(path.join(V, 'seeded')).sort()) {
    const mp = path.join(V, 'seeded', d, 'meta.json')
    if (!fs.existsSync(mp)) continue
    const m = JSON.parse(fs.readFileSync(mp, 'utf8'))
    const fired = m.checks_quick_seed1 ? m.checks_quick_seed1.fired : []
    const missedFirst = !!m.notes // a note is only written when the target check missed the change at first
    const round = (/^agent(\d+)/.exec(d) || [])[1] || '?'
    rounds[round] = rounds[round] || { n: 0, first: 0, now: 0 }
    rounds[round].n++
    if (!missedFirst) rounds[round].first++
    if (fired.includes(m.breaks_property)) rounds[round].now++
    let idea = ''
    try { const r = fs.readFileSync(path.join(V, 'seeded', d, 'README.md'), 'utf8'); const t = r.split('\n').find(l => /^#\s/.test(l)); idea = (t || '').replace(/^#\s*/, '').replace(/seeded change[^:—-]*[:—-]?\s*/i, '').slice(0, 90) } catch (e) {}
    rows.push(`| ${d} | ${m.breaks_property} | ${fired.join(' ') || '—'} | ${missedFirst ? 'missed, workload/oracle strengthened' : 'yes'} | ${idea.replace(/\|/g, '\\|')} |`)
  }
  const summary = Object.keys(rounds).sort((a, b) => a - b).map(r => `round ${r}: ${rounds[r].n} changes, ${rounds[r].first} caught by the target check as first built, ${rounds[r].now} caught now`).join('; ')
  const block = `<!-- SEEDS-TABLE-BEGIN -->\n${summary}.\n\n| change | breaks | quick checks that fire now (seed 1) | caught when first run | idea |\n|---|---|---|---|---|\n${rows.join('\n')}\n<!-- SEEDS-TABLE-END -->`
  const dp = path.join(V, 'DESIGN.md')
  let ds = fs.readFileSync(dp, 'utf8')
  if (/<!-- SEEDS-TABLE-BEGIN -->[\s\S]*<!-- SEEDS-TABLE-END -->/.test(ds)) ds = ds.replace(/<!-- SEEDS-TABLE-BEGIN -->[\s\S]*<!-- SEEDS-TABLE-END -->/, () => block)
  fs.writeFileSync(dp, ds)
}
let own = '# Hand-written seeded changes (DESIGN section 8)\n\n`tools/mkown.py` writes the patches, `tools/mutant.js` runs them. Changes that fail the 98 baseline tests are not valid seeds and are listed only for the record.\n\n| change | baseline tests | quick checks that fire | silent |\n|---|---|---|---|\n'
const od = path.join(V, 'selftest', 'own')
for (const f of fs.readdirSync(od).filter(x => x.endsWith('.result.json')).sort()) {
  let r; try { r = JSON.parse(fs.readFileSync(path.join(od, f), 'utf8')) } catch (e) { continue }
  own += `| ${f.replace('.result.json', '')} | ${r.tests === null ? 'not re-run' : String(r.tests).slice(0, 40)} | ${r.fired.join(', ') || '—'} | ${r.silent.join(', ') || '—'} |\n`
}
fs.writeFileSync(path.join(od, 'INDEX.md'), own)
console.log(md.split('\n').length, own.split('\n').length)
