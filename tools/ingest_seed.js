#!/usr/bin/env node
'use strict'
// node tools/ingest_seed.js <srcdir> <name> <property> "<demo command>" "<needs: what it takes to manifest>"
// Copies an agent's deliverables into seeded/<name>/, confirms them in a scratch worktree (verify_seed.sh),
// runs every check (quick) against the change applied to /repo (mutant.js) and writes meta.json.
const fs = require('fs'), path = require('path'), { spawnSync } = require('child_process')
const [src, name, prop, demoCmd, needs, mode] = process.argv.slice(2) // mode 'verify-only': confirm, leave the checks to tools/lanes_run.sh
const V = path.join(__dirname, '..')
const dst = path.join(V, 'seeded', name)
fs.mkdirSync(dst, { recursive: true })
for (const f of fs.readdirSync(src)) if (/\.(diff|js|mjs|md|rs|txt|sh)$/.test(f)) fs.copyFileSync(path.join(src, f), path.join(dst, f))
const v = spawnSync('bash', [path.join(V, 'tools/verify_seed.sh'), dst, demoCmd], { encoding: 'utf8', maxBuffer: 1 << 26 })
const verifyOut = (v.stdout || '') + (v.stderr || '')
const confirmed = /RESULT confirmed/.test(verifyOut)
console.log(verifyOut.split('\n').filter(l => /baseline-with-patch|demo without|RESULT/.test(l)).join('\n'))
let mut = null
if (confirmed && mode !== 'verify-only') {
  const m = spawnSync('node', [path.join(V, 'tools/mutant.js'), path.join(dst, 'patch.diff'), '--checks', 'all', '--skip-tests'], { encoding: 'utf8', maxBuffer: 1 << 26 })
  try { mut = JSON.parse(m.stdout) } catch (e) { console.log('mutant.js output unparsable', m.stdout.slice(-500), m.stderr.slice(-500)) }
}
let prevNotes
try { prevNotes = JSON.parse(fs.readFileSync(path.join(dst, 'meta.json'), 'utf8')).notes } catch (e) {}
const meta = {
  notes: prevNotes,
  name,
  breaks_property: prop,
  origin: 'independent sub-agent (given only the property text and a scratch worktree)',
  needs_to_manifest: needs,
  confirmed_by_me: { in_scratch_worktree: confirmed, baseline_98_tests_pass_with_change: /baseline-with-patch: test result: ok\. 98 passed/.test(verifyOut), demo_command: demoCmd, demo_passes_without_change: /demo without patch: exit 0/.test(verifyOut), demo_fails_with_change: confirmed },
  checks_quick_seed1: mut ? { fired: mut.fired, silent: mut.silent, first_violation: Object.fromEntries(mut.fired.map(id => [id, (mut.details[id].violations[0] || '').slice(0, 300)])) } : null
}
fs.writeFileSync(path.join(dst, 'meta.json'), JSON.stringify(meta, null, 1))
console.log(JSON.stringify({ name, confirmed, fired: mut && mut.fired, targetFired: mut && mut.fired.includes(prop) }))
