#!/usr/bin/env node
'use strict'
// node tools/refresh_seed.js <seeded-name> [--note "text"] [--checks all|C01,C02]
// Re-runs the quick checks against an already confirmed seeded change (applied to /repo by mutant.js, restored afterwards)
// and rewrites the checks_quick_seed1 part of its meta.json; an optional note records what was strengthened for it.
const fs = require('fs'), path = require('path'), { spawnSync } = require('child_process')
const args = process.argv.slice(2)
const name = args[0]
const note = args.includes('--note') ? args[args.indexOf('--note') + 1] : null
const checks = args.includes('--checks') ? args[args.indexOf('--checks') + 1] : 'all'
const V = path.join(__dirname, '..')
const dir = path.join(V, 'seeded', name)
const meta = JSON.parse(fs.readFileSync(path.join(dir, 'meta.json'), 'utf8'))
const m = spawnSync('node', [path.join(V, 'tools/mutant.js'), path.join(dir, 'patch.diff'), '--checks', checks, '--skip-tests'], { encoding: 'utf8', maxBuffer: 1 << 26 })
const mut = JSON.parse(m.stdout)
if (checks === 'all') meta.checks_quick_seed1 = { fired: mut.fired, silent: mut.silent, first_violation: Object.fromEntries(mut.fired.map(id => [id, (mut.details[id].violations[0] || '').slice(0, 300)])) }
else {
  const prev = meta.checks_quick_seed1 || { fired: [], silent: [], first_violation: {} }
  for (const id of checks.split(',')) {
    prev.fired = prev.fired.filter(x => x !== id); prev.silent = prev.silent.filter(x => x !== id); delete prev.first_violation[id]
    if (mut.fired.includes(id)) { prev.fired.push(id); prev.first_violation[id] = (mut.details[id].violations[0] || '').slice(0, 300) } else prev.silent.push(id)
  }
  prev.fired.sort(); prev.silent.sort()
  meta.checks_quick_seed1 = prev
}
if (note) meta.notes = (meta.notes ? meta.notes + ' ' : '') + note
const ordered = Object.assign({ notes: meta.notes }, meta)
fs.writeFileSync(path.join(dir, 'meta.json'), JSON.stringify(ordered, null, 1))
console.log(JSON.stringify({ name, fired: meta.checks_quick_seed1.fired, targetFired: meta.checks_quick_seed1.fired.includes(meta.breaks_property) }))
