#!/bin/bash
# tools/lane.sh <n>: creates or refreshes lane <n> = an independent pair (worktree of /repo at HEAD, copy of /verif's working
# tree with every /repo and /verif path rewired) under /tmp/lanes/<n>, so that seeded changes can be run against the checks
# in parallel and without touching /repo itself. The lane's harness build starts from a copy of /verif/.build/release.
# Remove with: tools/lane.sh <n> --remove
N=$1; L=/tmp/lanes/$N
if [ "$2" = "--remove" ]; then git -C /repo worktree remove --force $L/repo 2>/dev/null; rm -rf $L; exit 0; fi
mkdir -p $L
HEAD=$(git -C /repo rev-parse HEAD)
if [ ! -d $L/repo ]; then git -C /repo worktree add -q --detach $L/repo $HEAD || exit 2
else git -C $L/repo checkout -q -- . && git -C $L/repo clean -fdq -- src js main.js && git -C $L/repo checkout -q --detach $HEAD; fi
rsync -a --delete --exclude .git --exclude .build --exclude tmp --exclude replays --exclude harness/target /verif/ $L/verif/
cd $L/verif || exit 2
grep -rl "/repo\|/verif" harness/Cargo.toml js tools/*.js tools/*.sh miri_util/src/main.rs 2>/dev/null | xargs sed -i "s#/repo/#$L/repo/#g; s#'/repo'#'$L/repo'#g; s#/repo #$L/repo #g; s#/verif/#$L/verif/#g; s#'/verif'#'$L/verif'#g; s#/verif #$L/verif #g"
if [ ! -d .build/release ] && [ -d /verif/.build/release ]; then mkdir -p .build && cp -r /verif/.build/release .build/release; fi
node -e "const r=require('./js/lib/rw').build('release'); if(!r.ok){console.error(r.log.slice(-2000));process.exit(2)}" && echo "lane $N ready at $L"
