#!/usr/bin/env python3
# Builds the hand-written seeded changes of DESIGN section 8 as patch files (selftest/own/*.diff) in a scratch worktree.
import subprocess, os, sys
WT='/tmp/wt/own'
OUT='/verif/selftest/own'
M=[
 ('m01_drop_call_receiver','src/transform/call_expr_transform.rs',"""        call_replacement.args.insert(
            0,
            ExprOrSpread {
                spread: None,
                expr: Box::new(ident_replacement),
            },
        );""","""        if call_replacement.args.len() < 4 {
            call_replacement.args.insert(
                0,
                ExprOrSpread {
                    spread: None,
                    expr: Box::new(ident_replacement),
                },
            );
        }"""),
 ('m02_ident_keep_when_right_is_call','src/transform/operand_handler.rs',"""        if operand.is_ident() || operand.is_lit() {
            IdentMode::Keep""","""        if operand.is_ident() || operand.is_lit() || operand.is_call() {
            IdentMode::Keep"""),
 ('m03_while_test_not_visited','src/visitor/operation_transform_visitor.rs',"""    // cancel visit child blocks
    fn visit_mut_block_stmt(&mut self, _n: &mut BlockStmt) {}""","""    fn visit_mut_do_while_stmt(&mut self, n: &mut DoWhileStmt) {
        n.body.visit_mut_with(self);
    }

    // cancel visit child blocks
    fn visit_mut_block_stmt(&mut self, _n: &mut BlockStmt) {}"""),
 ('m04_literal_upper_bound_exclusive','src/visitor/literal_visitor.rs',"value.len() > self.min_literal_length && value.len() <= self.max_literal_length","value.len() > self.min_literal_length && value.len() < self.max_literal_length"),
 ('m05_literal_len_chars','src/visitor/literal_visitor.rs',"if value.len() > self.min_literal_length && value.len() <= self.max_literal_length {","if value.chars().count() > self.min_literal_length && value.chars().count() <= self.max_literal_length {"),
 ('m06_file_name_full_path_when_nested','src/util.rs',"    Path::new(file).file_name().and_then(|s| s.to_str())","    if file.matches('/').count() > 4 {\n        return Some(file);\n    }\n    Path::new(file).file_name().and_then(|s| s.to_str())"),
 ('m07_chain_lookup_dst_coords','src/rewriter.rs',"original_source.lookup_token(token.get_src_line(), token.get_src_col());","original_source.lookup_token(token.get_src_line(), token.get_dst_col());"),
 ('m08_chain_drops_names','src/rewriter.rs',"                        if original.has_name() {","                        if original.has_name() && sources.len() < 2 {"),
 ('m09_prologue_overwrites_hooks','src/rewriter.rs',"globals._ddiast = globals._ddiast || { __CSI_METHODS__ };","globals._ddiast = Object.assign(globals._ddiast || {}, { __CSI_METHODS__ });"),
 ('m10_default_literals_off_when_comments','src/lib_wasm.rs',"            literals: self.literals.unwrap_or(true),","            literals: self.literals.unwrap_or(!self.comments.unwrap_or(false)),"),
 ('m11_verbosity_parse_case_sensitive','src/telemetry.rs',"            return match value.to_uppercase().as_str() {","            return match value.as_str() {"),
 ('m12_plus_dst_ignored','src/visitor/csi_methods.rs',"""            Some(csi_method) => csi_method.dst.clone(),
            _ => DD_PLUS_OPERATOR.to_string(),""","""            Some(_) => DD_PLUS_OPERATOR.to_string(),
            _ => DD_PLUS_OPERATOR.to_string(),"""),
 ('m13_notmodified_returns_code_when_literals','src/rewriter.rs',"""        Status::NotModified => Ok(RewrittenOutput {
            code: String::default(),""","""        Status::NotModified => Ok(RewrittenOutput {
            code: if file.ends_with(".mjs") { String::from("// unchanged") } else { String::default() },"""),
 ('m14_unwrap_on_data_url','src/rewriter.rs',"        source = decode_data_url(url)\n            .map_err(Error::new)","        if url.starts_with(\"data:application/json;base64,\") {\n            decode_data_url(url).unwrap();\n        }\n        source = decode_data_url(url)\n            .map_err(Error::new)"),
 ('m15_tag_from_dst','src/transform/call_expr_transform.rs',"""        return Some(ResultExpr {
            tag: method_name.clone(),
            expr: get_dd_paren_expr(
                &Expr::Call(call_replacement),
                &arguments,
                &mut assignations,
                csi_method.dst.as_str(),
                &span,
            ),
        });
    }
    None
}

fn replace_call_expr_or_spread_if_csi_method_with_member(""","""        return Some(ResultExpr {
            tag: csi_method.dst.clone(),
            expr: get_dd_paren_expr(
                &Expr::Call(call_replacement),
                &arguments,
                &mut assignations,
                csi_method.dst.as_str(),
                &span,
            ),
        });
    }
    None
}

fn replace_call_expr_or_spread_if_csi_method_with_member("""),
 ('m16_js_line_off_by_one','js/source-map/index.js',"        line: originalLine + 1,","        line: originalLine + (originalColumn === 0 ? 2 : 1),"),
 ('m17_js_cache_by_basename','js/source-map/index.js',"    rewrittenSourceMapsCache.set(filename, sm)","    rewrittenSourceMapsCache.set(filename, sm)\n    rewrittenSourceMapsCache.set(path.basename(filename), sm)"),
 ('m18_spread_not_materialised','src/visitor/ident_provider.rs',"        let right_ep = if ident_kind == IdentKind::Spread {","        let right_ep = if ident_kind == IdentKind::Spread && !expr.is_member() {"),
 ('m19_template_skips_last_when_literal_like','src/transform/template_transform.rs',"            tpl.exprs.iter_mut().for_each(|tpl_expr| {","            tpl.exprs.iter_mut().rev().for_each(|tpl_expr| {"),
 ('m20_switch_discriminant_skipped','src/visitor/operation_transform_visitor.rs',"""    // cancel visit child blocks
    fn visit_mut_block_stmt(&mut self, _n: &mut BlockStmt) {}""","""    fn visit_mut_switch_stmt(&mut self, n: &mut SwitchStmt) {
        n.cases.visit_mut_with(self);
    }

    // cancel visit child blocks
    fn visit_mut_block_stmt(&mut self, _n: &mut BlockStmt) {}"""),
]
sel=sys.argv[1:] 
for name,f,old,new in M:
    if sel and name not in sel: continue
    p=os.path.join(WT,f)
    s=open(p).read()
    if old not in s:
        print('OLD NOT FOUND',name); continue
    open(p,'w').write(s.replace(old,new,1))
    d=subprocess.check_output(['git','-C',WT,'diff']).decode()
    open(os.path.join(OUT,name+'.diff'),'w').write(d)
    subprocess.check_call(['git','-C',WT,'checkout','--','.'])
    print('wrote',name,len(d))
