#!/bin/bash
# tools/ingest_round.sh <round> <ID>...   sequentially confirms (verify_seed.sh) and runs every quick check (mutant.js) against
# the deliverables of the sub-agents of a round found in /tmp/wt/r<round>/<ID>/_deliver; writes seeded/agent<round>-<ID>/
cd "$(dirname "$0")/.."
R=$1; shift
for p in "$@"; do
  D=/tmp/wt/r$R/$p/_deliver
  CMD=$(head -1 $D/DEMO_CMD.txt)
  echo "=== $p : $CMD"
  node tools/ingest_seed.js $D agent$R-$p $p "$CMD" "see README.md" 2>&1 | tail -6
  git -C /repo status --porcelain | head -3
done
echo INGEST-DONE
