#!/bin/bash
# Re-runs every quick check against every kept seeded change and rewrites the checks_quick_seed1 part of each meta.json.
# Meant for a snapshot (vp run --with-repo -- bash tools/refresh_all_seeds.sh): rewires the snapshot to its own paths first,
# so that /repo and /verif themselves are untouched; copy seeded/*/meta.json back afterwards (they are validation records, not evidence).
HERE=$PWD
if [ -n "$VP_RUN_REPO" ]; then
  grep -rl "/repo\|/verif" harness/Cargo.toml js tools/*.js miri_util/src/main.rs 2>/dev/null | xargs sed -i "s#/repo/#$VP_RUN_REPO/#g; s#'/repo'#'$VP_RUN_REPO'#g; s#/repo #$VP_RUN_REPO #g; s#/verif/#$HERE/#g; s#'/verif'#'$HERE'#g; s#/verif #$HERE #g"
fi
bash ./setup.sh || exit 2
for d in ${@:-seeded/*/}; do
  n=$(basename $d)
  echo "=== $n"
  node tools/refresh_seed.js $n 2>&1 | tail -1
done
