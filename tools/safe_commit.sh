#!/bin/bash
# tools/safe_commit.sh "<message>" [seed]: runs every quick check and commits only if all of them hold
MSG="$1"; SEED=${2:-1}
OUT=$(bash "$(dirname "$0")/runall.sh" $SEED 2>&1)
BAD=$(echo "$OUT" | grep -v "^HELD-ON-OBSERVED")
if [ -n "$BAD" ]; then echo "NOT COMMITTED:"; echo "$BAD"; exit 1; fi
cd "$(dirname "$0")/.." && node tools/mkmanifest.js >/dev/null && git add -A && git commit -qm "$MSG" && git log --oneline | head -1
