'use strict'
// Re-creates vendor/acorn.js and vendor/walk.js from the copies embedded in the node binary (MIT licensed).
const fs = require('fs'), path = require('path')
const natives = process.binding('natives')
fs.mkdirSync(path.join(__dirname, '..', 'vendor'), { recursive: true })
fs.writeFileSync(path.join(__dirname, '..', 'vendor', 'acorn.js'), natives['internal/deps/acorn/acorn/dist/acorn'])
fs.writeFileSync(path.join(__dirname, '..', 'vendor', 'walk.js'), natives['internal/deps/acorn/acorn-walk/dist/walk'])
