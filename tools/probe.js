#!/usr/bin/env node --experimental-vm-modules
'use strict'
// debugging aid: node --experimental-vm-modules tools/probe.js <file-with-bodies.js>
// The file exports an array of main(w) bodies (strings); each is wrapped, rewritten (FULL) and judged by the
// C01 differential executor, the C03 dynamic oracle's structural part and the C02 eraser. Prints one line each.
const path = require('path')
const bodies = require(path.resolve(process.argv[2]))
const { rewriteJobs, kind } = require('../js/lib/pipeline')
const { SETS } = require('../js/lib/cfgset')
const C01 = require('../js/props/C01')
const { Rng } = require('../js/lib/util')
process.on('unhandledRejection', () => {})
;(async () => {
  const jobs = bodies.map((b, i) => ({ code: `(function main(w) {\n${b}\n}).call(w.t, w)\n`, meta: { sigBase: 'probe:' + i, module: false }, config: SETS[process.env.CFG || 'FULL'], cfgKey: 'FULL', cfgName: 'FULL' }))
  const { responses } = rewriteJobs(jobs)
  for (let i = 0; i < jobs.length; i++) {
    const r = await C01.checkJob(jobs[i], responses[i], 'all', new Rng(1))
    console.log(`#${i} ${r.status}${r.violation ? ' :: ' + r.violation.what.slice(0, 300) : ''}${r.detail ? ' :: ' + r.detail : ''}${kind(responses[i]) === 'err' ? ' :: ' + responses[i].err.slice(0, 120) : ''}`)
    if (process.env.SHOW && responses[i].ok) console.log(responses[i].ok.raw.code.split('\n').filter(l => !/noop|^\s*[};]|_ddiast === .undefined|globals/.test(l)).join('\n'))
  }
})()
