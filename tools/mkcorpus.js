'use strict'
// One-off: builds /verif/corpus from JavaScript shipped in this image (deterministic selection).
const fs = require('fs'), path = require('path'), crypto = require('crypto')
const acorn = require('../vendor/acorn.js')
const roots = ['/root/.nvm/versions/node/v20.20.2/lib/node_modules', '/usr/lib/node_modules', '/repo/js', '/repo/test', '/repo/scripts', '/repo/main.js', '/repo/index.js']
const files = []
function walk (p, depth) {
  let st; try { st = fs.lstatSync(p) } catch (e) { return }
  if (st.isSymbolicLink()) return
  if (st.isDirectory()) { if (depth > 12) return; for (const f of fs.readdirSync(p).sort()) walk(path.join(p, f), depth + 1); return }
  if (!/\.(js|mjs|cjs)$/.test(p)) return
  if (st.size < 150 || st.size > 400000) return
  files.push([p, st.size])
}
roots.forEach(r => walk(r, 0))
const h = s => crypto.createHash('sha1').update(s).digest('hex')
files.sort((a, b) => h(a[0]) < h(b[0]) ? -1 : 1)
let total = 0, n = 0, big = 0
const seenPkg = new Map()
const out = []
for (const [p, size] of files) {
  if (n >= 520 || total > 6.2e6) break
  const pkg = (p.match(/node_modules\/((?:@[^/]+\/)?[^/]+)(?!.*node_modules)/) || [0, 'repo'])[1]
  const c = seenPkg.get(pkg) || 0
  if (c >= 6 && pkg !== 'repo') continue
  if (size > 60000) { if (big >= 12) continue }
  let code; try { code = fs.readFileSync(p, 'utf8') } catch (e) { continue }
  if (code.includes('�')) continue
  let kind = null
  try { acorn.parse(code, { ecmaVersion: 'latest', sourceType: 'script', allowHashBang: true, allowReturnOutsideFunction: true }); kind = 'script' } catch (e) {
    try { acorn.parse(code, { ecmaVersion: 'latest', sourceType: 'module', allowHashBang: true }); kind = 'module' } catch (e2) { continue }
  }
  if (size > 60000) big++
  seenPkg.set(pkg, c + 1)
  const name = String(n).padStart(3, '0') + '_' + pkg.replace(/[^a-zA-Z0-9]/g, '_').slice(0, 24) + '_' + path.basename(p).replace(/[^a-zA-Z0-9.]/g, '_').slice(-30)
  fs.writeFileSync(path.join(__dirname, '..', 'corpus', name), code)
  out.push({ name, from: p, size, kind })
  total += size; n++
}
fs.writeFileSync(path.join(__dirname, '..', 'corpus', 'INDEX.json'), JSON.stringify(out, null, 0))
console.log(n, 'files', total, 'bytes', seenPkg.size, 'packages', out.filter(o => o.kind === 'module').length, 'modules')
