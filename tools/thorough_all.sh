#!/bin/bash
# Runs every thorough tier in a snapshot (vp run --with-repo): rewires the snapshot to the repo snapshot first.
# usage (from vp run): bash tools/thorough_all.sh [seed] [jobs]
SEED=${1:-1}; JOBS=${2:-8}
if [ -n "$VP_RUN_REPO" ]; then
  grep -rl "/repo" harness/Cargo.toml js tools/*.js miri_util/src/main.rs 2>/dev/null | xargs sed -i "s#/repo/#$VP_RUN_REPO/#g; s#'/repo'#'$VP_RUN_REPO'#g"
fi
bash ./setup.sh || exit 2
for id in C01 C02 C03 C04 C05 C06 C07 C08 C09 C10 C11 C12 C14 C15 C16 C13; do
  echo "=== $id thorough seed $SEED"
  NB=--no-build; [ $id = C13 ] && NB=   # C13 thorough also needs the debug and asan profiles
  VERIF_SEED=$SEED ./check $id --tier thorough --jobs $JOBS $NB 2>&1 | grep -v "^KNOWN" | tail -6 | cut -c1-700
done
