#!/bin/bash
# Runs every quick check on the current tree (harness built once); prints one line per check. Usage: tools/runall.sh [seed]
cd "$(dirname "$0")/.."
SEED=${1:-1}
node -e "const r=require('./js/lib/rw').build('release'); if(!r.ok){console.error(r.log.slice(-2000));process.exit(2)}" || exit 2
rc=0
for id in C01 C02 C03 C04 C05 C06 C07 C08 C09 C10 C11 C12 C13 C14 C15 C16; do
  VERIF_SEED=$SEED ./check $id --no-build 2>&1 | grep -v "^KNOWN" | tail -1 | cut -c1-220 | tee /tmp/.runall_line
  grep -q "^HELD" /tmp/.runall_line || rc=1
done
exit $rc
