'use strict'
// Regenerates MANIFEST.json from the property modules present under js/props.
const fs = require('fs'), path = require('path')
const V = path.join(__dirname, '..')
const props = fs.readFileSync(path.join(V, 'properties.jsonl'), 'utf8').trim().split('\n').map(l => JSON.parse(l))
const TEXT = require('./manifest_text.js')
const checks = []
const na = []
for (const p of props) {
  const f = path.join(V, 'js', 'props', p.id + '.js')
  const t = TEXT[p.id]
  if (fs.existsSync(f) && t && !t.not_applicable) {
    const mod = require(f)
    checks.push({
      property_id: p.id,
      quick_cmd: `./check ${p.id} --tier quick`,
      thorough_cmd: `./check ${p.id} --tier thorough`,
      evidence_file: `/verif/evidence/${p.id}.json`,
      replay_cmd_template: `./check ${p.id} --replay {path}`,
      engine: t.engine,
      level_claimed: { category: mod.level, text: t.level_text, design_ref: `DESIGN.md section 5, ${p.id}` },
      level_note: t.level_note,
      technique: t.technique
    })
  } else na.push({ property_id: p.id, reason: (t && t.not_applicable) || 'check not built yet (work in progress); the property is within reach of runtime monitoring, see DESIGN.md section 5' })
}
const hookCommits = require('child_process').execSync("git -C /repo log --format=%H --grep='^verif hooks'").toString().trim().split('\n').filter(Boolean)
const manifest = {
  version: 1,
  setup_cmd: 'bash /verif/setup.sh',
  hooks: {
    guard: '--cfg datadog_dd_native_iast_rewriter_js_verif',
    enable: 'RUSTFLAGS="--cfg datadog_dd_native_iast_rewriter_js_verif" cargo build --release --offline in /verif/harness, whose [lib] target is /repo/src/lib.rs (js/lib/rw.js build())',
    baseline_off_cmd: 'cd /repo && cargo test --workspace --no-fail-fast --offline',
    source_commits: hookCommits,
    add_only: true
  },
  engines: TEXT.engines,
  checks,
  notes: TEXT.notes,
  not_applicable: na
}
fs.writeFileSync(path.join(V, 'MANIFEST.json'), JSON.stringify(manifest, null, 1) + '\n')
console.log('checks:', checks.map(c => c.property_id).join(' '), '| not claimed:', na.map(n => n.property_id).join(' '))
