#!/bin/bash
# tools/verify_round.sh <round> <slots> <ID>...: confirms the deliverables of a round's sub-agents (/tmp/wt/r<round>/<ID>/_deliver)
# in <slots> parallel scratch worktrees (verify_seed.sh through ingest_seed.js verify-only); writes seeded/agent<round>-<ID>/
cd "$(dirname "$0")/.."
R=$1; K=$2; shift 2
IDS=("$@")
for k in $(seq 1 $K); do
  (
    i=0
    for p in "${IDS[@]}"; do
      i=$((i+1)); [ $(( (i-1) % K + 1 )) = $k ] || continue
      D=/tmp/wt/r$R/$p/_deliver
      CMD=$(head -1 $D/DEMO_CMD.txt)
      VERIFY_WT=/tmp/wt/verify$k node tools/ingest_seed.js $D agent$R-$p $p "$CMD" "see README.md" verify-only 2>&1 | tail -1
    done
  ) &
done
wait
echo VERIFY-DONE
