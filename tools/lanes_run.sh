#!/bin/bash
# tools/lanes_run.sh <lanes> <seeded-name>...: refreshes <lanes> lanes and distributes `refresh_seed.js <name>` over them
# (each lane runs its share sequentially); copies the rewritten meta.json files back into /verif/seeded.
K=$1; shift
NAMES=("$@")
for n in $(seq 1 $K); do bash /verif/tools/lane.sh $n > /tmp/lanes/lane$n.setup.log 2>&1 || { echo "lane $n failed"; tail -5 /tmp/lanes/lane$n.setup.log; exit 2; }; done
for n in $(seq 1 $K); do
  (
    i=0
    for name in "${NAMES[@]}"; do
      i=$((i+1)); [ $(( (i-1) % K + 1 )) = $n ] || continue
      cd /tmp/lanes/$n/verif && node tools/refresh_seed.js $name 2>&1 | tail -1
      cp /tmp/lanes/$n/verif/seeded/$name/meta.json /verif/seeded/$name/meta.json
    done
  ) &
done
wait
echo LANES-DONE
