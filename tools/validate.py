#!/usr/bin/env python3-vt
import json, sys, glob, jsonschema
jsonschema.validate(json.load(open('/verif/MANIFEST.json')), json.load(open('/root/.vp/MANIFEST.schema.json')))
print('MANIFEST.json valid')
es = json.load(open('/root/.vp/EVIDENCE.schema.json'))
for f in sorted(glob.glob('/verif/evidence/*.json')):
    try:
        jsonschema.validate(json.load(open(f)), es); print(f, 'valid')
    except Exception as e:
        print(f, 'INVALID', str(e)[:300]); sys.exit(1)
