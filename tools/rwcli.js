#!/usr/bin/env node
'use strict'
// debugging aid: tools/rwcli.js 'code' [json-config-overrides] ; prints raw code + metrics
const { Harness } = require('../js/lib/rw')
const { FULL } = require('../js/lib/configs')
const code = process.argv[2] === '-' ? require('fs').readFileSync(0, 'utf8') : process.argv[2]
const over = process.argv[3] ? JSON.parse(process.argv[3]) : {}
const h = new Harness()
const r = h.one(Object.assign({}, FULL, over), code, over.file || '/app/x.js', over.reader)
if (r.ok) { console.log(r.ok.raw.code || '(not modified)'); console.log(JSON.stringify(r.ok.metrics)); if (process.env.LIT) console.log(JSON.stringify(r.ok.literalsResult)) } else console.log(JSON.stringify(r))
